"""Property-specific drivers (cross-process / cross-build / sanitizer stages) used by bin/check."""
import json
import os
import subprocess
import time


def _collect_digests(reports):
    d = {}
    for r in reports:
        d.update(r.get("notes", {}).get("digests", {}))
    return d


def c17(chk, prop, tier, seed, nshards, workdir, t0):
    """C17: in-process repetition (harness) + fresh processes under different rayon pool sizes."""
    binary = chk.build()
    reports, synthetic = chk.run_shards(binary, prop, tier, seed, nshards, workdir)
    merged = chk.merge(reports)
    merged["violations"].extend(synthetic)
    # fresh processes: every run re-keys all hash tables; pool sizes 1, 2, 16, ...
    pools = [1, 2, 16] if tier == "quick" else [1, 2, 16, 4, 3, 8]
    runs = []
    for i, k in enumerate(pools):
        os.environ["RAYON_NUM_THREADS"] = str(k)
        try:
            reps, syn = chk.run_shards(binary, prop, tier, seed, nshards, workdir, extra=("digest",), tag="-digest%d" % i)
        finally:
            del os.environ["RAYON_NUM_THREADS"]
        merged["violations"].extend(syn)
        runs.append((k, _collect_digests(reps)))
        merged["evaluations"] += sum(r["evaluations"] for r in reps)
    base_k, base = runs[0]
    mismatches = 0
    sets_differ = None
    for k, d in runs[1:]:
        for key, h in base.items():
            if key in d and d[key] != h:
                mismatches += 1
                idx, fn = key.split(":", 1)
                merged["violations"].append({
                    "signature": "%s|%s|differs-between-processes|any" % (prop, fn),
                    "what": "the same arguments (and seed) gave different results in two fresh processes (rayon pool sizes %d and %d)" % (base_k, k),
                    "detail": {"case_index": int(idx), "function": fn, "digest_a": h, "digest_b": d[key], "pool_a": base_k, "pool_b": k},
                    "case_index": int(idx), "case": None,
                    "replay": {"prop": prop, "seed": seed, "tier": tier, "case_index": int(idx), "extra": []},
                })
                sig = "%s|%s|differs-between-processes|any" % (prop, fn)
                merged["sig_counts"][sig] = merged["sig_counts"].get(sig, 0) + 1
        if set(d) != set(base):
            # the processes did not produce the same list of (case, function) results: the
            # digests they share are still compared, violations found anywhere are still
            # reported, and only a run without any violation ends inconclusive for this reason
            sets_differ = "digest runs covered different (case, function) sets: %d vs %d keys" % (len(base), len(d))
    merged["counters"]["reach:fresh-processes-compared"] = len(runs)
    merged["counters"]["reach:digests-compared-per-process"] = len(base)
    extra_cov = {"cross_process": {"processes": len(runs), "rayon_pool_sizes": pools, "digests_per_process": len(base), "mismatches": mismatches}}
    return chk.finish(prop, tier, seed, merged, time.time() - t0, extra_cov=extra_cov, inconclusive=sets_differ)


def _pub_fns(repo):
    import re
    names = set()
    for root, _, files in os.walk(os.path.join(repo, "src")):
        for f in files:
            if f.endswith(".rs") and "verif" not in f and not f.startswith("main"):
                for line in open(os.path.join(root, f), errors="replace"):
                    m = re.match(r"\s*pub fn ([a-z_0-9]+)", line)
                    if m:
                        names.add(m.group(1))
    return names


def _dump_case(binary, prop, tier, seed, idx):
    p = subprocess.run([binary, prop, "--tier", tier, "--seed", str(seed), "--only-case", str(idx), "--extra", "dump"],
                       stdout=subprocess.PIPE, text=True)
    try:
        return json.loads(p.stdout).get("notes", {}).get("dump", [])
    except Exception:
        return None


def _close(a, b):
    """compare two canonical outcome strings, numbers at 1e-9 relative"""
    import re
    if a == b:
        return True
    num = re.compile(r"-?\d\.\d{11}e-?\d+")
    xa, xb = num.findall(a), num.findall(b)
    if num.sub("#", a) != num.sub("#", b) or len(xa) != len(xb):
        return False
    for p, q in zip(xa, xb):
        p, q = float(p), float(q)
        if abs(p - q) > 1e-9 * max(1.0, abs(p), abs(q)):
            return False
    return True


def c20(chk, prop, tier, seed, nshards, workdir, t0):
    """C20: the same call table under the checked build (overflow checks + debug assertions on)
    and the plain release build; values returned by both must agree."""
    checked = chk.build("release")
    plain = chk.build("plain")
    rep_c, syn_c = chk.run_shards(checked, prop, tier, seed, nshards, workdir, tag="-checked")
    rep_p, syn_p = chk.run_shards(plain, prop, tier, seed, nshards, workdir, tag="-plain")
    merged = chk.merge(rep_c + rep_p)
    for s in syn_c + syn_p:
        merged["violations"].append(s)
        merged["sig_counts"][s["signature"]] = merged["sig_counts"].get(s["signature"], 0) + 1
    dc, dp = _collect_digests(rep_c), _collect_digests(rep_p)
    differing = [k for k in dc if k in dp and dc[k] != dp[k]]
    confirmed = 0
    for k in sorted(differing, key=int)[:25]:
        # hash iteration order differs from run to run, so a call only counts when each build
        # agrees with itself over 4 fresh processes and the two builds still disagree
        runs_a = [_dump_case(checked, prop, tier, seed, int(k)) for _ in range(4)]
        runs_b = [_dump_case(plain, prop, tier, seed, int(k)) for _ in range(4)]
        if any(r is None for r in runs_a + runs_b) or len({len(r) for r in runs_a + runs_b}) != 1:
            continue
        for i in range(len(runs_a[0])):
            ca = runs_a[0][i][0]
            va = [r[i][1] for r in runs_a]
            vb = [r[i][1] for r in runs_b]
            if not all(v.startswith("Ok(") for v in va + vb):
                continue
            stable = all(_close(va[0], v) for v in va) and all(_close(vb[0], v) for v in vb)
            if stable and not _close(va[0], vb[0]):
                confirmed += 1
                fn = ca.split("(")[0]
                sig = "%s|%s|checked-and-plain-build-disagree|value" % (prop, fn)
                merged["violations"].append({
                    "signature": sig,
                    "what": "%s returns different values in the checked and the plain build (wrapped arithmetic leaked into a result)" % fn,
                    "detail": {"call": ca, "checked_build": va[0][:600], "plain_build": vb[0][:600]},
                    "case_index": int(k), "case": None,
                    "replay": {"prop": prop, "seed": seed, "tier": tier, "case_index": int(k), "extra": []},
                })
                merged["sig_counts"][sig] = merged["sig_counts"].get(sig, 0) + 1
                break
    pubs = _pub_fns(chk.REPO)
    covered = set(merged["notes"].get("covered_functions", []))
    merged["notes"].pop("digests", None)
    merged["notes"].pop("covered_functions", None)
    merged["counters"]["reach:cases-compared-across-builds"] = len([k for k in dc if k in dp])
    extra_cov = {
        "profiles": ["checked: opt-level 2 + overflow-checks + debug-assertions", "plain: stock release settings"],
        "cases_compared_across_builds": len([k for k in dc if k in dp]),
        "cases_with_different_digest": len(differing),
        "value_disagreements_confirmed": confirmed,
        "public_functions_in_src": len(pubs),
        "public_functions_in_call_table": len(pubs & covered),
        "public_functions_not_in_call_table": sorted(pubs - covered),
    }
    return chk.finish(prop, tier, seed, merged, time.time() - t0, extra_cov=extra_cov)


def _sanitizer_env():
    env = dict(os.environ, CARGO_NET_OFFLINE="true")
    return env


def _start_tsan(chk, workdir, seed):
    """Builds the harness with ThreadSanitizer (nightly, -Zbuild-std) and runs the light C07
    workload plus the small c07 binary. Returns a dict with the outcome."""
    env = _sanitizer_env()
    env["RUSTFLAGS"] = "-Zsanitizer=thread"
    env["CARGO_TARGET_DIR"] = os.path.join(chk.VERIF, ".target-tsan")
    build = subprocess.run(["cargo", "+nightly", "build", "--offline", "--release", "-Zbuild-std", "--target", "x86_64-unknown-linux-gnu",
                            "--manifest-path", os.path.join(chk.HARNESS, "Cargo.toml")], env=env, stdout=subprocess.PIPE, stderr=subprocess.STDOUT, text=True)
    if build.returncode != 0:
        return {"status": "unavailable", "why": build.stdout[-1500:]}
    bindir = os.path.join(env["CARGO_TARGET_DIR"], "x86_64-unknown-linux-gnu", "release")
    renv = dict(os.environ, TSAN_OPTIONS="halt_on_error=0 exitcode=66 second_deadlock_stack=1", RAYON_NUM_THREADS="4")
    out = os.path.join(workdir, "tsan-report.json")
    runs = [
        [os.path.join(bindir, "gverif"), "C07", "--tier", "quick", "--seed", str(seed), "--shard", "0/1", "--extra", "light", "--out", out, "--cpu-budget", "600"],
        [os.path.join(bindir, "c07_miri"), str(seed)],
    ]
    reports, mismatch, rcs = [], False, []
    for cmd in runs:
        p = subprocess.run(cmd, env=renv, stdout=subprocess.PIPE, stderr=subprocess.PIPE, text=True)
        rcs.append(p.returncode)
        if "C07-MISMATCH" in p.stdout:
            mismatch = True
        blocks = p.stderr.split("WARNING: ThreadSanitizer:")
        for b in blocks[1:]:
            reports.append(b[:3000])
    harness_violations = []
    try:
        harness_violations = json.load(open(out)).get("violations", [])
    except Exception:
        pass
    in_repo = [r for r in reports if "/repo/src" in r or "graphrs::" in r]
    return {"status": "ran", "exit_codes": rcs, "reports": len(reports), "reports_with_graphrs_frame": len(in_repo),
            "first_report": (in_repo or reports or [""])[0][:1500], "mismatch": mismatch, "harness_violations": harness_violations}


def _run_miri(chk, seeds):
    """Runs the small c07 binary under Miri (Tree Borrows, data-race detection) for several
    scheduler seeds in parallel."""
    env = _sanitizer_env()
    env["CARGO_TARGET_DIR"] = os.path.join(chk.VERIF, ".target-miri")
    base_flags = "-Zmiri-disable-isolation -Zmiri-permissive-provenance -Zmiri-tree-borrows -Zmiri-ignore-leaks"
    man = os.path.join(chk.HARNESS, "Cargo.toml")
    # build once so that the parallel runs do not fight over the cargo lock
    env0 = dict(env, MIRIFLAGS=base_flags)
    b = subprocess.run(["cargo", "+nightly", "miri", "run", "--offline", "--manifest-path", man, "--bin", "c07_miri", "--", "0", "build-only-probe"],
                       env=dict(env0, MIRI_BUILD_ONLY="1"), stdout=subprocess.PIPE, stderr=subprocess.STDOUT, text=True) if False else None
    procs = []
    for s in seeds:
        e = dict(env, MIRIFLAGS=base_flags + " -Zmiri-seed=%d" % s)
        procs.append((s, subprocess.Popen(["cargo", "+nightly", "miri", "run", "--offline", "--manifest-path", man, "--bin", "c07_miri", "--", str(s), "mini"],
                                          env=e, stdout=subprocess.PIPE, stderr=subprocess.STDOUT, text=True)))
        time.sleep(1.0 if len(procs) > 1 else 45.0)  # the first run compiles; the others reuse it
    return procs


def c07(chk, prop, tier, seed, nshards, workdir, t0):
    """C07: native differential over pool sizes / delays (always); thorough adds a
    ThreadSanitizer build and Miri runs of a reduced workload."""
    binary = chk.build()
    miri_procs, tsan = [], None
    if tier == "thorough":
        miri_procs = _run_miri(chk, [seed * 100 + i for i in range(8)])
    os.environ["RAYON_NUM_THREADS"] = "8"
    try:
        reports, synthetic = chk.run_shards(binary, prop, tier, seed, nshards, workdir)
    finally:
        del os.environ["RAYON_NUM_THREADS"]
    merged = chk.merge(reports)
    merged["violations"].extend(synthetic)
    # schedule evidence: distinct schedules observed per pool size, summed over shards
    sched = {}
    for r in reports:
        for k, v in r.get("notes", {}).get("schedules_observed_in_this_shard", {}).items():
            a = sched.setdefault(k, {"distinct_item_to_worker_assignments": 0, "distinct_start_orders": 0})
            a["distinct_item_to_worker_assignments"] += v["distinct_item_to_worker_assignments"]
            a["distinct_start_orders"] += v["distinct_start_orders"]
    merged["notes"].pop("schedules_observed_in_this_shard", None)
    extra = {"schedules_observed": sched, "sanitizers": {}}
    inconclusive = None
    if tier == "thorough":
        tsan = _start_tsan(chk, workdir, seed)
        extra["sanitizers"]["thread_sanitizer"] = {k: v for k, v in tsan.items() if k != "harness_violations"}
        if tsan["status"] == "ran":
            merged["counters"]["reach:tsan-run"] = 1
            if tsan["reports_with_graphrs_frame"] > 0 or tsan["mismatch"] or tsan["harness_violations"]:
                sig = "%s|thread-sanitizer|%s|any" % (prop, "data-race-report-with-graphrs-frame" if tsan["reports_with_graphrs_frame"] else "result-mismatch-under-tsan")
                merged["violations"].append({"signature": sig, "what": "ThreadSanitizer run of the C07 workload reported a problem inside graphrs",
                                             "detail": {"first_report": tsan["first_report"], "harness_violations": [v["signature"] for v in tsan["harness_violations"]]},
                                             "case_index": None, "case": None, "replay": {"prop": prop, "seed": seed, "tier": tier, "case_index": None, "extra": []}})
                merged["sig_counts"][sig] = 1
        miri_out = []
        for s, p in miri_procs:
            try:
                out, _ = p.communicate(timeout=3600)
            except subprocess.TimeoutExpired:
                p.kill()
                out = "TIMEOUT"
            ok = "c07_miri ok" in out and p.returncode == 0
            ub = "Undefined Behavior" in out or "data race" in out.lower()
            mism = "C07-MISMATCH" in out
            miri_out.append({"scheduler_seed": s, "ok": ok, "undefined_behaviour_or_race": ub, "mismatch": mism, "tail": "" if ok else out[-1200:]})
            if ub or mism:
                sig = "%s|miri|%s|any" % (prop, "undefined-behaviour-or-data-race" if ub else "result-mismatch-under-miri")
                merged["violations"].append({"signature": sig, "what": "Miri run of the reduced C07 workload failed", "detail": {"output_tail": out[-2500:], "scheduler_seed": s},
                                             "case_index": None, "case": None, "replay": {"prop": prop, "seed": seed, "tier": tier, "case_index": None, "extra": []}})
                merged["sig_counts"][sig] = merged["sig_counts"].get(sig, 0) + 1
        extra["sanitizers"]["miri"] = {"runs": miri_out, "flags": "-Zmiri-tree-borrows -Zmiri-permissive-provenance -Zmiri-ignore-leaks -Zmiri-disable-isolation -Zmiri-seed=<n>"}
        merged["counters"]["reach:miri-runs-completed"] = len([m for m in miri_out if m["ok"]])
    return chk.finish(prop, tier, seed, merged, time.time() - t0, extra_cov=extra, inconclusive=inconclusive)

"""Property-specific drivers (cross-process / cross-build / sanitizer stages) used by bin/check."""
import json
import os
import subprocess
import time


def _collect_digests(reports):
    d = {}
    for r in reports:
        d.update(r.get("notes", {}).get("digests", {}))
    return d


def c17(chk, prop, tier, seed, nshards, workdir, t0):
    """C17: in-process repetition (harness) + fresh processes under different rayon pool sizes."""
    binary = chk.build()
    reports, synthetic = chk.run_shards(binary, prop, tier, seed, nshards, workdir)
    merged = chk.merge(reports)
    merged["violations"].extend(synthetic)
    # fresh processes: every run re-keys all hash tables; pool sizes 1, 2, 16, ...
    pools = [1, 2, 16] if tier == "quick" else [1, 2, 16, 4, 3, 8]
    runs = []
    for i, k in enumerate(pools):
        os.environ["RAYON_NUM_THREADS"] = str(k)
        try:
            reps, syn = chk.run_shards(binary, prop, tier, seed, nshards, workdir, extra=("digest",), tag="-digest%d" % i)
        finally:
            del os.environ["RAYON_NUM_THREADS"]
        merged["violations"].extend(syn)
        runs.append((k, _collect_digests(reps)))
        merged["evaluations"] += sum(r["evaluations"] for r in reps)
    base_k, base = runs[0]
    mismatches = 0
    for k, d in runs[1:]:
        for key, h in base.items():
            if key in d and d[key] != h:
                mismatches += 1
                idx, fn = key.split(":", 1)
                merged["violations"].append({
                    "signature": "%s|%s|differs-between-processes|any" % (prop, fn),
                    "what": "the same arguments (and seed) gave different results in two fresh processes (rayon pool sizes %d and %d)" % (base_k, k),
                    "detail": {"case_index": int(idx), "function": fn, "digest_a": h, "digest_b": d[key], "pool_a": base_k, "pool_b": k},
                    "case_index": int(idx), "case": None,
                    "replay": {"prop": prop, "seed": seed, "tier": tier, "case_index": int(idx), "extra": []},
                })
                sig = "%s|%s|differs-between-processes|any" % (prop, fn)
                merged["sig_counts"][sig] = merged["sig_counts"].get(sig, 0) + 1
        if set(d) != set(base):
            chk.log("INCONCLUSIVE: digest runs covered different case sets")
            return 2
    merged["counters"]["reach:fresh-processes-compared"] = len(runs)
    merged["counters"]["reach:digests-compared-per-process"] = len(base)
    extra_cov = {"cross_process": {"processes": len(runs), "rayon_pool_sizes": pools, "digests_per_process": len(base), "mismatches": mismatches}}
    return chk.finish(prop, tier, seed, merged, time.time() - t0, extra_cov=extra_cov)


def _pub_fns(repo):
    import re
    names = set()
    for root, _, files in os.walk(os.path.join(repo, "src")):
        for f in files:
            if f.endswith(".rs") and "verif" not in f and not f.startswith("main"):
                for line in open(os.path.join(root, f), errors="replace"):
                    m = re.match(r"\s*pub fn ([a-z_0-9]+)", line)
                    if m:
                        names.add(m.group(1))
    return names


def _dump_case(binary, prop, tier, seed, idx):
    p = subprocess.run([binary, prop, "--tier", tier, "--seed", str(seed), "--only-case", str(idx), "--extra", "dump"],
                       stdout=subprocess.PIPE, text=True)
    try:
        return json.loads(p.stdout).get("notes", {}).get("dump", [])
    except Exception:
        return None


def _close(a, b):
    """compare two canonical outcome strings, numbers at 1e-9 relative"""
    import re
    if a == b:
        return True
    num = re.compile(r"-?\d\.\d{11}e-?\d+")
    xa, xb = num.findall(a), num.findall(b)
    if num.sub("#", a) != num.sub("#", b) or len(xa) != len(xb):
        return False
    for p, q in zip(xa, xb):
        p, q = float(p), float(q)
        if abs(p - q) > 1e-9 * max(1.0, abs(p), abs(q)):
            return False
    return True


def c20(chk, prop, tier, seed, nshards, workdir, t0):
    """C20: the same call table under the checked build (overflow checks + debug assertions on)
    and the plain release build; values returned by both must agree."""
    checked = chk.build("release")
    plain = chk.build("plain")
    rep_c, syn_c = chk.run_shards(checked, prop, tier, seed, nshards, workdir, tag="-checked")
    rep_p, syn_p = chk.run_shards(plain, prop, tier, seed, nshards, workdir, tag="-plain")
    merged = chk.merge(rep_c + rep_p)
    for s in syn_c + syn_p:
        merged["violations"].append(s)
        merged["sig_counts"][s["signature"]] = merged["sig_counts"].get(s["signature"], 0) + 1
    dc, dp = _collect_digests(rep_c), _collect_digests(rep_p)
    differing = [k for k in dc if k in dp and dc[k] != dp[k]]
    confirmed = 0
    for k in sorted(differing, key=int)[:25]:
        # hash iteration order differs from run to run, so a call only counts when each build
        # agrees with itself over 4 fresh processes and the two builds still disagree
        runs_a = [_dump_case(checked, prop, tier, seed, int(k)) for _ in range(4)]
        runs_b = [_dump_case(plain, prop, tier, seed, int(k)) for _ in range(4)]
        if any(r is None for r in runs_a + runs_b) or len({len(r) for r in runs_a + runs_b}) != 1:
            continue
        for i in range(len(runs_a[0])):
            ca = runs_a[0][i][0]
            va = [r[i][1] for r in runs_a]
            vb = [r[i][1] for r in runs_b]
            if not all(v.startswith("Ok(") for v in va + vb):
                continue
            stable = all(_close(va[0], v) for v in va) and all(_close(vb[0], v) for v in vb)
            if stable and not _close(va[0], vb[0]):
                confirmed += 1
                fn = ca.split("(")[0]
                sig = "%s|%s|checked-and-plain-build-disagree|value" % (prop, fn)
                merged["violations"].append({
                    "signature": sig,
                    "what": "%s returns different values in the checked and the plain build (wrapped arithmetic leaked into a result)" % fn,
                    "detail": {"call": ca, "checked_build": va[0][:600], "plain_build": vb[0][:600]},
                    "case_index": int(k), "case": None,
                    "replay": {"prop": prop, "seed": seed, "tier": tier, "case_index": int(k), "extra": []},
                })
                merged["sig_counts"][sig] = merged["sig_counts"].get(sig, 0) + 1
                break
    pubs = _pub_fns(chk.REPO)
    covered = set(merged["notes"].get("covered_functions", []))
    merged["notes"].pop("digests", None)
    merged["notes"].pop("covered_functions", None)
    merged["counters"]["reach:cases-compared-across-builds"] = len([k for k in dc if k in dp])
    extra_cov = {
        "profiles": ["checked: opt-level 2 + overflow-checks + debug-assertions", "plain: stock release settings"],
        "cases_compared_across_builds": len([k for k in dc if k in dp]),
        "cases_with_different_digest": len(differing),
        "value_disagreements_confirmed": confirmed,
        "public_functions_in_src": len(pubs),
        "public_functions_in_call_table": len(pubs & covered),
        "public_functions_not_in_call_table": sorted(pubs - covered),
    }
    return chk.finish(prop, tier, seed, merged, time.time() - t0, extra_cov=extra_cov)

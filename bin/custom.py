"""Property-specific drivers (cross-process / cross-build / sanitizer stages) used by bin/check."""
import json
import os
import subprocess
import time


def _collect_digests(reports):
    d = {}
    for r in reports:
        d.update(r.get("notes", {}).get("digests", {}))
    return d


def c17(chk, prop, tier, seed, nshards, workdir, t0):
    """C17: in-process repetition (harness) + fresh processes under different rayon pool sizes."""
    binary = chk.build()
    reports, synthetic = chk.run_shards(binary, prop, tier, seed, nshards, workdir)
    merged = chk.merge(reports)
    merged["violations"].extend(synthetic)
    # fresh processes: every run re-keys all hash tables; pool sizes 1, 2, 16, ...
    pools = [1, 2, 16] if tier == "quick" else [1, 2, 16, 4, 3, 8]
    runs = []
    for i, k in enumerate(pools):
        os.environ["RAYON_NUM_THREADS"] = str(k)
        try:
            reps, syn = chk.run_shards(binary, prop, tier, seed, nshards, workdir, extra=("digest",), tag="-digest%d" % i)
        finally:
            del os.environ["RAYON_NUM_THREADS"]
        merged["violations"].extend(syn)
        runs.append((k, _collect_digests(reps)))
        merged["evaluations"] += sum(r["evaluations"] for r in reps)
    base_k, base = runs[0]
    mismatches = 0
    for k, d in runs[1:]:
        for key, h in base.items():
            if key in d and d[key] != h:
                mismatches += 1
                idx, fn = key.split(":", 1)
                merged["violations"].append({
                    "signature": "%s|%s|differs-between-processes|any" % (prop, fn),
                    "what": "the same arguments (and seed) gave different results in two fresh processes (rayon pool sizes %d and %d)" % (base_k, k),
                    "detail": {"case_index": int(idx), "function": fn, "digest_a": h, "digest_b": d[key], "pool_a": base_k, "pool_b": k},
                    "case_index": int(idx), "case": None,
                    "replay": {"prop": prop, "seed": seed, "tier": tier, "case_index": int(idx), "extra": []},
                })
                sig = "%s|%s|differs-between-processes|any" % (prop, fn)
                merged["sig_counts"][sig] = merged["sig_counts"].get(sig, 0) + 1
        if set(d) != set(base):
            chk.log("INCONCLUSIVE: digest runs covered different case sets")
            return 2
    merged["counters"]["reach:fresh-processes-compared"] = len(runs)
    merged["counters"]["reach:digests-compared-per-process"] = len(base)
    extra_cov = {"cross_process": {"processes": len(runs), "rayon_pool_sizes": pools, "digests_per_process": len(base), "mismatches": mismatches}}
    return chk.finish(prop, tier, seed, merged, time.time() - t0, extra_cov=extra_cov)

"""Per-property metadata used by bin/check when it writes evidence: the generation /
non-triviality rule, assumptions, the evidence level and the minimum-reach counters
(prefixes of harness counters that must be non-zero for a run to count as 'held')."""

BOUNDARY = " One graph case in ten is a boundary shape: node counts around 20/21, 32, 64, 128 (where the caller's range allows), hubs with 63..129 (fan-in) neighbours and second-level nodes, 31..34 parallel edges on one pair, random weights of a common extreme magnitude (1e-140..1e140), weights restricted to two values; multigraph cases regularly carry three or more parallel edges on one pair, directed cases are sometimes fully reciprocated, exact-class weights sometimes sum to the edge count; every graph is built with one Arc per distinct edge (identical edges share it) and a third of its nodes is re-added after the edges."

COMMON = [
    "verdict = held on the executions observed, nothing more (runtime monitoring)",
    "the reference model / definition oracles in /verif/harness/src are correct",
    "workload derives deterministically from VERIF_SEED (SplitMix64); hash iteration order inside graphrs is not controlled",
]

PROPS = {
    "C01": {
        "level": "exploration",
        "rule": "96 GraphSpecs x seeded mutation histories (add_node/add_nodes/add_edge/add_edge_tuple/add_edges/add_edge_tuples, 1..20 (quick: 400 histories per spec) or 1..40 (thorough: 8000 per spec) ops over 2-6 names whose sort order differs from insertion order; weights all-NaN, all-real or wild; one history in 25 contains a batch of 64..70 edges; in half of the histories an identical edge is handed over as the very same Arc again) run in lock-step with the reference Model, plus the same nodes/edges through new_from_nodes_and_edges. A history is non-trivial iff it exercised at least one policy branch (self-loop stored/dropped/rejected, node created/rejected, duplicate appended/rejected/ignored/replaced, node re-add, failing batch); distinct = distinct (specs, history) hashes.",
        "assumptions": COMMON + ["where the statement leaves an outcome open (self-loop on an unknown node) either order of checks is accepted (DESIGN 2.2 ambiguity sets)"],
        "min_reach": {"any": ["branch:D:selfloop:stored", "branch:D:selfloop:dropped", "branch:D:selfloop:rejected", "branch:U:duplicate:replaced:opposite-orientation", "branch:U:duplicate:ignored:opposite-orientation", "branch:D:duplicate:appended", "branch:D:missing-node:created", "branch:U:missing-node:rejected", "branch:node-readd", "branch:failing-batch-with-nonempty-prefix", "checked:failed-call-left-graph-unchanged", "checked:ignored-call-left-graph-unchanged", "reach:same-arc-passed-again"]},
    },
    "C02": {
        "level": "exploration",
        "rule": "96 GraphSpecs x seeded histories; every 4th op and at the end every read query (all ordered pairs and all subsets of <=3 names of the universe + one absent name) is compared with the answer computed from the Model's node list and edge multiset, and the feature-guarded snapshot of the private indexes is checked for mutual consistency (I1 node indexes, I2 name-keyed vs position-keyed edge store, I3 adjacency sets, I5 lengths). Non-trivial = final graph has >=2 nodes and >=1 edge; distinct = distinct (specs, history) hashes.",
        "assumptions": COMMON + ["hook: Graph::verif_snapshot() (feature verif-hooks) is a faithful read-only copy of the private fields", "when two refusals apply at once either error kind is accepted"],
        "min_reach": {"any": ["reach:undirected-edge-with-name-order-differing-from-position-order", "reach:undirected-pair-query-against-name-order", "reach:pair-with-3-or-more-parallel-edges", "guard:get_edge-on-multi", "guard:get_edges-on-single", "guard:in-out-edges-on-undirected", "guard:succ-pred-on-undirected", "reach:graph-with-more-than-16-nodes", "reach:node-list-with-repeated-names"]},
    },
    "C03": {
        "level": "exploration",
        "rule": "96 GraphSpecs x seeded histories over uniformly weighted (exact multiples of 0.25, or - one history in 8 - decimal / 1e-20-scale weights one or two ulps apart) or uniformly unweighted edges, every 7th history around a hub with 60..70 neighbours, with forced 'second edge, smaller / larger weight' steps in both orientations; after EVERY op the traversal lists (successors_vec / predecessors_vec) in the snapshot must equal the Model's min-weight adjacency and the neighbour sets by name and by position must equal the stored edge relation; at the end dijkstra::single_source from every node (and betweenness/closeness on every 3rd history) must equal the oracle fed with get_all_edges() only. Non-trivial = history added a second edge to an existing pair; distinct = distinct (specs, history) hashes.",
        "assumptions": COMMON + ["hook: Graph::verif_snapshot()", "weights are exact dyadic rationals so oracle and implementation sums are exact"],
        "min_reach": {"any": ["reach:D:second-edge-smaller:KeepFirst", "reach:D:second-edge-larger:KeepFirst", "reach:D:second-edge-smaller:KeepLast", "reach:D:second-edge-larger:KeepLast", "reach:D:second-edge-smaller:multi", "reach:D:second-edge-larger:multi", "reach:U:second-edge-smaller:KeepFirst", "reach:U:second-edge-larger:KeepFirst", "reach:U:second-edge-smaller:KeepLast", "reach:U:second-edge-larger:KeepLast", "reach:U:second-edge-smaller:multi", "reach:U:second-edge-larger:multi", "reach:hub-with-60-or-more-neighbours"]},
    },
    "C09": {
        "level": "exploration",
        "rule": "96 GraphSpecs x seeded histories with forced self-loops and parallel/opposite edges; every 960th history is a bulk graph (hub with 129..140 incident edges, more than 1000 connected pairs, 129+ parallel edges on multigraphs); at the end of each history counts, size, per-node and all-node (weighted) degrees, handshake identities, degree_centrality, density and the sparse adjacency matrix are compared with the Model's edge multiset. Non-trivial = final graph has >=1 edge; distinct = distinct (specs, history) hashes.",
        "assumptions": COMMON + ["weighted identities are only checked on histories whose weights are exact multiples of 0.25", "matrix non-zero pattern is not checked when a stored weight is 0"],
        "min_reach": {"any": ["reach:directed-graph-with-self-loop", "reach:multigraph-with-parallel-edges", "reach:node-with-parallel-self-loops", "reach:matrix-undirected-name-order-differs-from-position-order", "reach:bulk-graph-with-more-than-1000-pairs"]},
    },
    "C15": {
        "level": "exploration",
        "rule": "96 GraphSpecs x graphs reached by seeded histories (so duplicate policies have acted) (every 12th source graph also has 70..100 filler nodes and, on multigraphs, a pair with 129..135 parallel edges) x get_subgraph over subsets of the universe + an absent name and over small subsets of all nodes listed against graph order, reverse (twice), set_all_edge_weights over {NaN,0,1,2.5,-1,inf}, to_single_edges; each result is compared with the derived graph computed on the Model, its private indexes and traversal lists are checked and it then receives further mutations under the C01 monitor; the source graph's full observation vector is compared before/after. Non-trivial = source graph has >=1 edge; distinct = distinct (specs, history) hashes.",
        "assumptions": COMMON + ["hook: Graph::verif_snapshot()", "attributes of a collapsed edge and the order of edges inside the result are not part of the statement and are not compared"],
        "min_reach": {"any": ["adopted-and-mutated:get_subgraph", "adopted-and-mutated:reverse", "adopted-and-mutated:set_all_edge_weights", "adopted-and-mutated:to_single_edges", "guard:reverse-on-undirected", "guard:to_single_edges-on-single", "reach:to_single_edges-collapsed-a-group", "reach:small-subset-of-a-large-graph", "reach:source-graph-with-more-than-64-nodes"]},
    },
}

PROPS.update({
    "C04": {
        "level": "exploration",
        "rule": "seeded graphs: 8 kinds x 14 families (G(n,p) at 3 densities, path, cycle, star, complete, grid, nested SCCs, many components, bipartite, barbell, tree, ladder) x weight classes {unweighted, exact k/4, exact wide, generic doubles, zero-containing}, optional self-loops / parallel edges, shuffled insertion order and names; n<=9 (every source, full path-set comparison) and every 8th case n in 21..60 (parallel branch; path counts). single_source / multi_source / all_pairs with (first_only, with_paths) in {(F,T),(T,T),(F,F)} are compared with exhaustive-relaxation distances and the enumerated set of all shortest paths computed from get_all_nodes()/get_all_edges() only. Non-trivial = graph has >=2 nodes and >=1 edge; distinct = distinct (kind, names, edge list) hashes." + BOUNDARY,
        "assumptions": COMMON + ["generic (non-dyadic) weights: distances compared at 1e-9 relative, path sets only on graphs certified free of near-ties (gap > 1e-6)", "paths are node sequences: parallel edges do not multiply paths"],
        "min_reach": {"any": ["reach:target-with-several-shortest-paths", "reach:parallel-edges", "reach:self-loops", "reach:unreachable-pairs", "reach:n>20"]},
    },
    "C05": {
        "level": "exploration",
        "rule": "seeded graphs as for C04 (n in 0..3, 3..12 and every 10th case 21..45; every 120th case is a size sweep: 65..300/700 nodes, hubs with more than 64 neighbours, chains of 26..66 diamonds with up to 2^66 equally short paths; decimal / 1e-20-scale weight classes whose sums are ulps apart use an oracle that decides ties exactly as a label-setting search does) x {hop counts, positive weights} x {raw, normalized}; betweenness_centrality is compared (1e-9 relative) with the pair-dependency definition evaluated on all-pairs distances and path counts computed from get_all_edges() only. Non-trivial = n>=3 and >=1 edge; distinct = distinct graph hashes." + BOUNDARY,
        "assumptions": COMMON + ["generic-weight graphs are only used when certified tie-free", "shortest paths are counted as node sequences (parallel edges do not multiply paths)"],
        "min_reach": {"any": ["reach:graph-with-tied-shortest-paths", "reach:n<=2", "reach:parallel-edges", "reach:self-loops", "reach:n>20", "reach:hub-with-more-than-64-neighbours", "reach:astronomic-path-counts"]},
    },
    "C06": {
        "level": "exploration",
        "rule": "seeded graphs as for C05 x {hop counts, positive weights} x {wf_improved on, off}; closeness_centrality is compared (1e-9 relative) with (r-1)/sum of incoming distances computed from get_all_edges() only. Non-trivial = n>=2 and >=1 edge; distinct = distinct graph hashes." + BOUNDARY,
        "assumptions": COMMON,
        "min_reach": {"any": ["reach:directed-asymmetric-reachability", "reach:parallel-edges", "reach:self-loops", "reach:n>20", "reach:hub-with-more-than-64-neighbours"]},
    },
    "C08": {
        "level": "exploration",
        "rule": "seeded graphs (8 kinds, 14 families, n in 1..8, unweighted / exact / generic incl. decimal weights such as 0.2, 0.7) x every source x target in {None, each node} x cutoff in {None, every distinct distance, midpoints, beyond the maximum} x first_only x with_paths: each optioned single_source answer is compared with the unrestricted all-paths answer of the implementation itself; all_pairs and multi_source(all nodes) are compared with per-node single_source; undirected symmetry, triangle inequality and get_all_shortest_paths_involving are checked on the same answers; every 100th case is a 70..140-node graph (hub, threshold node count or an 'improvement cascade' in which a chain of hubs strictly improves every leaf several times) where six optioned searches per source must agree with the distance-only search. Non-trivial = n>=3 and >=1 edge; distinct = distinct graph hashes." + BOUNDARY,
        "assumptions": COMMON + ["metamorphic: the implementation is compared with itself (absolute correctness of the unrestricted answer is C04's business)"],
        "min_reach": {"any": ["reach:involving-nonempty", "reach:graph-with-70-or-more-nodes", "reach:improvement-cascade"]},
    },
})

PROPS.update({
    "C10": {
        "level": "exploration",
        "rule": "seeded graphs (8 kinds x 14 families incl. many small components, long cycles, nested SCCs, isolated nodes, self-loops, parallel edges; n in 0..12 and every 6th case 13..40/60), each rebuilt 3 times with fresh hash states. connected / weakly / strongly connected components are compared with the classes of the Warshall transitive closure of get_all_edges(); number_of_connected_components, node_connected_component (every node), breadth_first_search (every start node), bfs_equal_size_partitions (every k in 1..=n+2) and the WrongMethod guards are checked; every 300th case has 63..192 nodes (multiples of 64 and their neighbours). Non-trivial = n>=2; distinct = distinct graph hashes." + BOUNDARY,
        "assumptions": COMMON,
        "min_reach": {"any": ["reach:three-or-more-components", "reach:nontrivial-scc-structure", "guard:connected_components-on-directed", "guard:directed-components-on-undirected", "reach:node-count-around-multiple-of-64"]},
    },
    "C11": {
        "level": "exploration",
        "rule": "seeded single-edge graphs (directed/undirected, 14 families, n in 1..12, unweighted / exact / generic positive weights, self-loops always requested, isolated and degree-1 nodes) x {full node set, 8 random non-empty proper subsets incl. singletons}; clustering, average_clustering (count_zeros both ways), triangles, transitivity, generalized_degree and square_clustering are compared (1e-9 relative) with dense-matrix definitions (A^3 diagonal, Fagiolo, cube-root weights, Lind et al.); coefficients must lie in [0,1]; every 400th case has 101..130 nodes with subsets of 1..3 nodes; a quarter of the weighted graphs have all weights below 1, a sixth mix weights 20 orders of magnitude apart (values are compared relatively); every 12th case is a multi-edge graph that must be refused with WrongMethod, directed graphs must be refused by the undirected-only functions. Non-trivial = n>=3 and >=2 edges; distinct = distinct graph hashes.",
        "assumptions": COMMON + ["weighted graphs: self-loop weights are set to the smallest weight so that the normalising maximum is attained by a proper edge", "empty means (no counted coefficient) are not constrained", "square_clustering has no error channel: on directed graphs only C20 (no panic) applies"],
        "min_reach": {"any": ["reach:proper-subset", "reach:graph-with-self-loops", "reach:undirected-graph-with-triangles", "guard:triangles-on-directed", "guard:clustering-on-multi", "reach:graph-with-more-than-100-nodes", "reach:all-weights-below-1", "reach:weights-20-orders-of-magnitude-apart"]},
    },
    "C12": {
        "level": "exploration",
        "rule": "(a) exhaustive small scope: for node sets of size 0..3 (thorough: 0..4, directed and undirected path graphs) every family of 1, 2 or 3 subsets of (nodes + one foreign name) is given to is_partition and compared with: pairwise disjoint, only graph nodes, covering; non-partitions of <=2 sets are also given to modularity, which must answer NotAPartition. (b) seeded graphs of all 8 kinds (n<=25, >=1 edge, weighted and unweighted) x random true partitions (sometimes with an empty community) (every 250th graph has 63..192 nodes) x resolution in {0.25,0.5,1,1.5,2}: modularity vs Newman's formula computed from get_all_edges() (1e-9 relative); 4 near-partitions per graph (element duplicated / dropped / replaced by a foreign name / overlap and omission cancelling) must be rejected. Non-trivial = every case; distinct = distinct (graph, partition) hashes." + BOUNDARY,
        "assumptions": COMMON + ["an empty community does not stop a family from being a partition"],
        "min_reach": {"any": ["exhaustive:is_partition-scope-completed", "reach:near-partition:overlap-and-omission-cancel", "reach:near-partition:element-replaced-by-foreign-name", "reach:modularity-with-self-loops", "reach:parallel-edges-inside-a-community", "reach:node-count-around-multiple-of-64"]},
    },
    "C13": {
        "level": "exploration",
        "rule": "seeded graphs with >=1 edge: all 8 kinds, G(n,p)/paths/cycles/cliques/..., rings of 3..14 cliques (every 200th case 40..100 cliques, n up to 400) and directed cycles/paths; half of the cases are small (4..12 nodes) graphs with integer weights 1..5 and self-loops; unweighted, exact and generic weights; seeds 0..999 plus u64::MAX, u64::MAX-1, 2^63; resolution from {0.3,0.7,1,1.5,2} or uniform in (0.05,2]; threshold in {0,1e-7,1e-2,0.5}; 240 000 (quick) / 3 000 000 (thorough) runs. louvain_partitions runs under a logical step budget (sweeps <= 200+20n, level iterations <= n+8, counted by the verif-hooks tick at the top of both loops); every level must be a partition into non-empty sets, a coarsening of the previous level, and on single-edge graphs modularity (oracle, same flag and resolution) must not decrease from the singleton partition onwards; louvain_communities must equal the last level. Non-trivial = every run; distinct = distinct (graph, options) hashes." + BOUNDARY,
        "assumptions": COMMON + ["hook: verif_hooks::tick in the Louvain sweep and level loops; termination is decided as bounded progress on logical steps, the wall clock is never a verdict", "modularity monotonicity is checked with absolute slack 1e-9"],
        "min_reach": {"any": ["reach:two-or-more-levels", "reach:three-or-more-levels", "reach:directed-run", "reach:multi-edge-run", "reach:self-loop-run"]},
    },
    "C18": {
        "level": "exploration",
        "rule": "seeded single-edge graphs (directed/undirected, 14 families incl. bipartite/periodic graphs, DAGs and edgeless graphs, n in 1..25/40, unweighted / exact / generic / zero-containing non-negative weights, self-loops; every 400th case has 257..513 nodes) x tolerance in {1e-12,1e-9,1e-6,1e-3,1e-2} x max_iter in {1,2,5,100,1000,k*-1,k*,k*+1} where k* is the iteration at which an independent dense implementation of the documented update meets the documented criterion. Ok results: one entry per node, non-negative, |norm-1|<=1e-9, one more documented step moves the vector by <= 2*sqrt(n)*||I+A^T||_F*n*tol, and max_iter >= k*; Err results: kind PowerIterationFailedConvergence and max_iter < k* (cases where the criterion is within 1e-6 relative of the threshold are skipped as ambiguous). Non-trivial = n>=2 and >=1 edge; distinct = distinct (graph, weighted, tolerance) hashes.",
        "assumptions": COMMON + ["the documented iteration (start vector 1/n, update x + A^T x, L2 normalisation, L1 change < n*tol) is the reference for the convergence contract"],
        "min_reach": {"any": ["reach:converged", "reach:exhausted-max_iter", "reach:self-loops", "reach:more-than-256-nodes"]},
    },
})

PROPS.update({
    "C14": {
        "level": "exploration",
        "rule": "seeded graphs of all 8 kinds (permissive policies) over Unicode names (XML specials, entity look-alikes, ]]>, <!--, quotes, leading/trailing/inner spaces, empty string, Latin-1, CJK, astral emoji, combining marks, RTL, U+00A0, U+2028, random scalar values; control characters and non-characters excluded) and weights from bit-pattern classes (+-0, subnormals, min/max normal, 1e308 scale, +-inf, 17-significant-digit values at extreme magnitudes, random non-NaN bit patterns), unweighted / weighted / mixed, self-loops and parallel edges; names also contain literal entity texts (&quot;, &apos;, &amp;quot;); weights also 20-digit integers; every 600th graph has 1001..1300 edges. write_graphml_string then read_graphml_string with the same specs must reproduce node names and order, directedness and the edge multiset with bit-identical weights; every 4th case also writes a file (two alternating paths, so shorter documents overwrite longer files), compares its bytes with the string variant and reads it back. Non-trivial = graph has >=1 edge; distinct = distinct (kind, names, edges) hashes.",
        "assumptions": COMMON + ["files are written to a per-process directory under /verif/.work and removed"],
        "min_reach": {"any": ["reach:xml-special-characters-in-names", "reach:non-ascii-names", "reach:extreme-magnitude-weights", "reach:infinite-weights", "reach:file-variant", "reach:more-than-1000-edges", "reach:shorter-document-saved-over-longer-file"]},
    },
    "C19": {
        "cpu_budget": 20,
        "level": "fault_enumeration",
        "rule": "(a) grammar-generated GraphML documents, half of them hostile (keys without for/id, duplicated attributes, unknown entities, non-numeric / escaped / CDATA / padded weight text, data before, after and outside edges, nested elements inside data, empty <graph/>, several graphs, missing attributes, trailing garbage, 20-digit and malformed numeric weight text, parse.nodes / parse.edges hints up to 2^64, numeric text under non-weight keys, empty weight data); (b) fault enumeration: for each well-formed base document of 150-700 bytes EVERY prefix truncation, EVERY single-byte deletion, EVERY single-byte duplication, one bit flip per byte (kept if still UTF-8), every tag deletion and duplication; (c) hand-picked hostile fragments and 10^3..10^5-deep nesting. Each document is read under 6 GraphSpecs with catch_unwind, a logical step budget of len+16 event-loop iterations (verif-hooks tick) and abort attribution; Ok(graph) is compared with an independent scan of the same text (own quick-xml event loop) replayed on the reference Model. Non-trivial = every document; distinct = distinct base documents / fragments (variants are counted in fault-variants).",
        "assumptions": COMMON + ["the quick-xml tokenizer is shared with graphrs and trusted", "content is only compared where the statement fixes the meaning: documents the tokenizer rejects, unreadable attributes, several graph elements and misplaced / CDATA / late-declared weight data are checked for totality (and node/edge identity where possible) only", "the fault space enumerated per base document is complete for truncation, byte deletion and byte duplication; bit flips are one seeded bit per byte"],
        "min_reach": {"any": ["fault-bases-fully-enumerated", "fault-variants", "outcome:ok", "outcome:err", "content-compared:graph-matches-document"]},
    },
})

PROPS.update({
    "C16": {
        "level": "exploration",
        "rule": "complete_graph for EVERY n in 0..=60 (plus 100, 129; thorough adds 64..300 around powers of two) and both kinds: node set {0..n-1}, exactly one edge per (un)ordered pair. karate_club_graph against the reference 78-edge Zachary edge list. 400 unseeded (seed=None) draws at n=5, p=0.5 must cover every pair and give >= 20 distinct graphs; fast_gnp_random_graph: n in {0,1,2,3,5,10,30,60 | 100,300} x p in {1e-12,1e-9,1e-6,0.01,0.1,0.3,0.5,0.9,0.999999} x both kinds x 60 (200) seeds: Ok, node set {0..n-1}, no self-loop, no repeated pair, and |mean edge count - p*N| <= p*N/(n-1) + 6*sqrt(N p (1-p)/S); n in 2..=6 at p=0.5 over 400 seeds: every possible pair occurs; p in {1e-9,3e-10,1e-10} x n in {3,30,300} over 20000 (100000) seeds (huge skips); p in {0,1,-0.1,1.5,NaN,inf,-0.0,1+ulp} with n in {0,1,2,10} must give InvalidArgument. Non-trivial = every configuration; distinct = distinct configurations.",
        "assumptions": COMMON + ["statistical test: the property's own 1/(n-1) relative allowance plus a 6-sigma sampling term (false-alarm probability about 2e-9 per configuration for a correct G(n,p)); deterministic per VERIF_SEED"],
        "min_reach": {"any": ["complete_graph:checked", "karate:checked", "gnp:invalid-p-rejected", "gnp:mean-tested-configurations", "gnp:pair-occurrence-configurations", "gnp:tiny-p-configurations", "gnp:unseeded-draws-checked"]},
    },
    "C17": {
        "custom": "c17",
        "level": "exploration",
        "rule": "case list: seeded fast_gnp_random_graph (n up to 600), seeded louvain_partitions / louvain_communities on tie-rich graphs (paths, cycles, complete, bipartite, grids, ladders, stars, barbells, plus G(n,p); unweighted, exact, symmetric-pattern, generic and 2^520-scaled weights; seeds incl. u64::MAX, u64::MAX-1, 2^63), and the discrete outputs of non-randomised algorithms (all_pairs distances bits + path sets, components, triangles, generalized degree, bfs partitions). A sweep of 150 000 (1 500 000) tiny graphs (3..7 nodes) with arbitrary real weights runs seeded louvain_partitions four times each (inputs with a gain that is zero up to rounding are rare but then order-of-summation dependent). Each case is repeated 10 (30) times in one process - the graph is rebuilt each time so every hash table is re-keyed, and repetitions run under caller-installed rayon pools of 1, 2, 3 and 16 threads - and its canonical result (sets of sets, sorted) must not change; then 3 (6) passes of fresh processes with RAYON_NUM_THREADS in {1,2,16,...} compute a digest per (case, function) and the digests must agree. Non-trivial = every case; distinct = distinct case indexes.",
        "assumptions": COMMON + ["floating-point outputs of non-randomised algorithms are not part of the cross-process digests (rounding of sums is allowed by the statement)", "hash iteration order cannot be forced; reach comes from re-keying (every HashMap::new draws new keys) across 10-30 repetitions and 3-6 processes"],
        "min_reach": {"any": ["reach:louvain-on-tie-rich-graph", "reach:call-under-pool-of-16-threads", "reach:call-under-pool-of-1-threads", "reach:fresh-processes-compared", "cases:kind0", "reach:louvain-with-huge-dyadic-weights", "reach:small-real-weighted-louvain-inputs"]},
    },
})

PROPS.update({
    "C20": {
        "custom": "c20",
        "cpu_budget": 10,
        "level": "exploration",
        "rule": "an explicit table of ~100 public functions (Graph queries, degrees, density, matrix, derived graphs, ensure_*, every function of algorithms::*, generators, GraphML I/O, Edge/Node/GraphSpecs constructors, mutation entry points) with argument recipes: every existing node / pair, one absent name for functions with a Result/Option channel, weighted in {false,true}, k in {1,2,n,n+1}, partitions in {singletons, whole, foreign-name, overlapping}. Graphs: EXHAUSTIVE small scope - for each of the 8 kinds every graph on n<=2 (quick) / n<=3 (thorough) nodes (all subsets of the allowed pairs incl. loops; multi-edge kinds also doubled edges) x {unweighted, weighted} - plus named degenerate shapes and random graphs (n<=12; self-loop-only, parallel-only, stars, paths, components, ...), plus threshold shapes: 21..40-node graphs whose parallel functions run inside a 48-thread pool (more workers than nodes) and chains of 62..66 diamonds (2^62..2^66 equally short paths). Every call runs under catch_unwind, the Louvain step budget and the CPU watchdog, in two builds (checked: overflow checks + debug assertions; plain release); per-case digests of all returned values are compared across the builds. Non-trivial = every graph; distinct = distinct graph hashes.",
        "assumptions": COMMON + ["functions without an error channel are only called with names that exist", "weights are positive or NaN (negative weights are outside the property)", "no value oracle here (values are C02-C18's business); only totality and cross-build agreement"],
        "min_reach": {"any": ["exhaustive:scope-completed", "exhaustive:DML:n2", "exhaustive:USN:n2", "shapes:star", "reach:cases-compared-across-builds", "shapes:more-worker-threads-than-nodes", "shapes:diamond-chain-2^62-paths"]},
        "exhaustive": False,
    },
})

PROPS.update({
    "C07": {
        "custom": "c07",
        "level": "exploration",
        "rule": "seeded graphs with n in 21..80 (thorough: ..150), directed/undirected, multi-edge and self-loop kinds, generic non-dyadic weights (so that an order-dependent float reduction changes low bits), unweighted and exact weights. Reference = all_pairs (4 option variants incl. target and cutoff), multi_source (2), get_all_shortest_paths_involving, betweenness (raw, normalized), closeness (plain, wf) inside a 1-thread pool (the code's own serial branch). A quarter of the graphs (and the first six cases always) are threshold shapes: a hub with exactly 63/64/65 successors, 255..300 nodes, 21..24 nodes. Candidates = caller-installed pools of {2,3,4,8,16,32,48} (thorough: 1..=16, 32, 48) threads x 4 (12) repetitions with seeded 0-700us delays injected by the verif-hooks par_item hook at the start of every work item, the global pool, a call from inside the caller's own par_iter, and 6 scoped threads reading the same &Graph concurrently; every distance bit pattern, sorted path list and centrality bit pattern must equal the reference. The hook logs (item, worker, start order); evidence reports the number of distinct item->worker assignments and start orders seen per pool size. Thorough adds the same light workload under a ThreadSanitizer build (-Zsanitizer=thread -Zbuild-std) and 8 Miri runs (Tree Borrows, data-race detection, different scheduler seeds) of a 22-node workload. Non-trivial = every graph; distinct = distinct graph hashes.",
        "assumptions": COMMON + ["hook: verif_hooks::par_item (first statement of each rayon work item): the closures hold no lock and touch no shared mutable state, so a delay there only produces schedules the program can already have", "schedules are sampled, not enumerated"],
        "min_reach": {"any": ["reach:parallel-work-items-observed", "reach:two-or-more-distinct-schedules-for-a-pool-size", "reach:global-pool-run", "reach:nested-call", "reach:concurrent-readers"]},
    },
})

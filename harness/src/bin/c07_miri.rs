//! Small C07 workload for Miri (data-race and UB detection on every access) and for
//! ThreadSanitizer: a 22-node graph (just above the parallel threshold), the five parallel
//! functions under rayon pools of 1, 2 and 3 threads, results compared bit for bit.
//! usage: c07_miri [seed]

use graphrs::algorithms::centrality::{betweenness, closeness};
use graphrs::algorithms::shortest_path::dijkstra;
use graphrs::{Edge, Graph, GraphSpecs, Node};
use std::collections::BTreeMap;

fn next(s: &mut u64) -> u64 {
    *s = s.wrapping_add(0x9E37_79B9_7F4A_7C15);
    let mut z = *s;
    z = (z ^ (z >> 30)).wrapping_mul(0xBF58_476D_1CE4_E5B9);
    z = (z ^ (z >> 27)).wrapping_mul(0x94D0_49BB_1331_11EB);
    z ^ (z >> 31)
}

fn results(g: &Graph<String, ()>, weighted: bool, mini: bool) -> String {
    let mut out = String::new();
    let ap = dijkstra::all_pairs(g, weighted, None, None, false, true).unwrap();
    let mut b: BTreeMap<(String, String), (u64, Vec<Vec<String>>)> = BTreeMap::new();
    for (s, inner) in ap {
        for (t, info) in inner {
            let mut p = info.paths;
            p.sort();
            b.insert((s.clone(), t), (info.distance.to_bits(), p));
        }
    }
    out.push_str(&format!("{:?}", b));
    let names: Vec<String> = g.get_all_nodes().iter().map(|n| n.name.clone()).collect();
    let ms = dijkstra::multi_source(g, weighted, names[..5].to_vec(), Some(names[7].clone()), None, false, true).unwrap();
    out.push_str(&format!("{}", ms.len()));
    if !mini {
        out.push_str(&format!("{}", dijkstra::get_all_shortest_paths_involving(g, names[3].clone(), weighted).len()));
    }
    let bc = betweenness::betweenness_centrality(g, weighted, true).unwrap();
    out.push_str(&format!("{:?}", bc.into_iter().map(|(k, v)| (k, v.to_bits())).collect::<BTreeMap<_, _>>()));
    let cc = closeness::closeness_centrality(g, weighted, true).unwrap();
    out.push_str(&format!("{:?}", cc.into_iter().map(|(k, v)| (k, v.to_bits())).collect::<BTreeMap<_, _>>()));
    out
}

fn main() {
    let mut seed: u64 = std::env::args().nth(1).and_then(|s| s.parse().ok()).unwrap_or(1);
    // "mini": one graph kind and one candidate pool per seed (an interpreter is ~10^4 x slower)
    let mini = std::env::args().nth(2).map(|s| s == "mini").unwrap_or(false);
    let n = 22usize;
    let kinds: Vec<bool> = if mini { vec![seed % 2 == 0] } else { vec![true, false] };
    let pools: Vec<usize> = if mini { vec![2 + ((seed / 2) % 2) as usize] } else { vec![2, 3] };
    for directed in kinds {
        let specs = if directed { GraphSpecs::directed_create_missing() } else { GraphSpecs::undirected_create_missing() };
        let mut g: Graph<String, ()> = Graph::new(GraphSpecs { edge_dedupe_strategy: graphrs::EdgeDedupeStrategy::KeepLast, ..specs });
        for i in 0..n {
            g.add_node(Node::from_name(format!("n{}", (i * 7) % n)));
        }
        for i in 0..n {
            for _ in 0..2 {
                let j = (next(&mut seed) % n as u64) as usize;
                if i != j {
                    let w = 0.1 + (next(&mut seed) % 1000) as f64 / 97.0;
                    g.add_edge(Edge::with_weight(format!("n{}", i), format!("n{}", j), w)).unwrap();
                }
            }
        }
        let p1 = rayon::ThreadPoolBuilder::new().num_threads(1).build().unwrap();
        let reference = p1.install(|| results(&g, true, mini));
        for &k in &pools {
            let p = rayon::ThreadPoolBuilder::new().num_threads(k).build().unwrap();
            let got = p.install(|| results(&g, true, mini));
            if got != reference {
                println!("C07-MISMATCH directed={} threads={}", directed, k);
                std::process::exit(1);
            }
        }
    }
    println!("c07_miri ok");
}

#![allow(dead_code, unused_imports, unused_variables, unused_mut)]
//! gverif — runtime monitors for graphrs properties C01..C20 (see /verif/DESIGN.md).

mod ctx;
mod gen;
mod hist;
mod model;
mod oracle;
mod props_algo;
mod props_gen;
mod props_model;
mod props_par;
mod props_path;
mod props_total;
mod props_xml;
mod rng;

use ctx::Args;

fn parse_args() -> Args {
    let mut a = Args {
        prop: String::new(),
        thorough: false,
        seed: 1,
        shard: 0,
        nshards: 1,
        out: None,
        only_case: None,
        skip_until: None,
        verbose: false,
        extra: vec![],
        cpu_budget_s: 40.0,
    };
    let argv: Vec<String> = std::env::args().skip(1).collect();
    let mut i = 0;
    while i < argv.len() {
        let s = argv[i].as_str();
        let mut val = || {
            i += 1;
            argv.get(i).cloned().unwrap_or_else(|| panic!("missing value for {}", s))
        };
        match s {
            "--tier" => a.thorough = val() == "thorough",
            "--seed" => a.seed = val().parse().expect("seed"),
            "--shard" => {
                let v = val();
                let (x, y) = v.split_once('/').expect("--shard i/n");
                a.shard = x.parse().unwrap();
                a.nshards = y.parse().unwrap();
            }
            "--out" => a.out = Some(val()),
            "--only-case" => a.only_case = Some(val().parse().expect("case index")),
            "--skip-until" => a.skip_until = Some(val().parse().expect("case index")),
            "--cpu-budget" => a.cpu_budget_s = val().parse().expect("seconds"),
            "--verbose" => a.verbose = true,
            "--extra" => a.extra.push(val()),
            _ if a.prop.is_empty() && !s.starts_with("--") => a.prop = s.to_string(),
            _ => panic!("unknown argument {}", s),
        }
        i += 1;
    }
    a
}

fn main() {
    let a = parse_args();
    ctx::init(&a);
    match a.prop.as_str() {
        "C01" => props_model::run_c01(&a),
        "C02" => props_model::run_c02(&a),
        "C03" => props_model::run_c03(&a),
        "C04" => props_path::run_c04(&a),
        "C05" => props_path::run_c05(&a),
        "C06" => props_path::run_c06(&a),
        "C07" => props_par::run_c07(&a),
        "C08" => props_path::run_c08(&a),
        "C09" => props_model::run_c09(&a),
        "C10" => props_algo::run_c10(&a),
        "C11" => props_algo::run_c11(&a),
        "C12" => props_algo::run_c12(&a),
        "C13" => props_algo::run_c13(&a),
        "C18" => props_algo::run_c18(&a),
        "C14" => props_xml::run_c14(&a),
        "C19" => props_xml::run_c19(&a),
        "C16" => props_gen::run_c16(&a),
        "C17" => props_gen::run_c17(&a),
        "C20" => props_total::run_c20(&a),
        "C15" => props_model::run_c15(&a),
        other => {
            eprintln!("unknown property {}", other);
            std::process::exit(64);
        }
    }
    ctx::finish(false);
}

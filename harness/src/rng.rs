//! Deterministic pseudo-random numbers (SplitMix64). Everything random in the harness
//! derives from VERIF_SEED through this generator.

pub fn mix(a: u64, b: u64) -> u64 {
    let mut z = a
        .wrapping_mul(0x9E37_79B9_7F4A_7C15)
        .wrapping_add(b)
        .wrapping_add(0x9E37_79B9_7F4A_7C15);
    z = (z ^ (z >> 30)).wrapping_mul(0xBF58_476D_1CE4_E5B9);
    z = (z ^ (z >> 27)).wrapping_mul(0x94D0_49BB_1331_11EB);
    z ^ (z >> 31)
}

#[derive(Clone)]
pub struct Rng(pub u64);

impl Rng {
    pub fn new(seed: u64) -> Rng {
        Rng(mix(seed, 0x5EED))
    }
    pub fn next_u64(&mut self) -> u64 {
        self.0 = self.0.wrapping_add(0x9E37_79B9_7F4A_7C15);
        let mut z = self.0;
        z = (z ^ (z >> 30)).wrapping_mul(0xBF58_476D_1CE4_E5B9);
        z = (z ^ (z >> 27)).wrapping_mul(0x94D0_49BB_1331_11EB);
        z ^ (z >> 31)
    }
    /// uniform in 0..n (n > 0)
    pub fn below(&mut self, n: usize) -> usize {
        (self.next_u64() % (n as u64)) as usize
    }
    /// uniform in lo..=hi
    pub fn range(&mut self, lo: usize, hi: usize) -> usize {
        lo + self.below(hi - lo + 1)
    }
    pub fn chance(&mut self, num: u64, den: u64) -> bool {
        self.next_u64() % den < num
    }
    pub fn coin(&mut self) -> bool {
        self.next_u64() & 1 == 1
    }
    /// uniform in [0,1)
    pub fn f64(&mut self) -> f64 {
        (self.next_u64() >> 11) as f64 / (1u64 << 53) as f64
    }
    pub fn pick<'a, T>(&mut self, xs: &'a [T]) -> &'a T {
        &xs[self.below(xs.len())]
    }
    pub fn shuffle<T>(&mut self, xs: &mut [T]) {
        for i in (1..xs.len()).rev() {
            let j = self.below(i + 1);
            xs.swap(i, j);
        }
    }
}

/// FNV-1a over bytes, used for canonical case hashes.
pub fn fnv(bytes: &[u8]) -> u64 {
    let mut h: u64 = 0xcbf29ce484222325;
    for b in bytes {
        h ^= *b as u64;
        h = h.wrapping_mul(0x100000001b3);
    }
    h
}

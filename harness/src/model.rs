//! The reference Model: specs + node list + edge multiset, with the mutation semantics of
//! property C01 and the expected answer of every read query (C02, C09).

use graphrs::{
    Edge, EdgeDedupeStrategy, ErrorKind, Graph, GraphSpecs, MissingNodeStrategy, Node,
    SelfLoopsFalseStrategy,
};
use std::collections::{BTreeMap, BTreeSet};
use std::sync::Arc;

pub type G = Graph<String, i32>;

#[derive(Clone, Copy, PartialEq, Eq, Debug, Hash)]
pub enum Dedupe {
    Error,
    KeepFirst,
    KeepLast,
}

#[derive(Clone, Copy, PartialEq, Eq, Debug, Hash)]
pub struct Specs {
    pub directed: bool,
    pub multi: bool,
    pub self_loops: bool,
    pub dedupe: Dedupe,
    pub missing_create: bool,
    pub loops_drop: bool,
}

impl Specs {
    pub fn all() -> Vec<Specs> {
        let mut v = vec![];
        for directed in [true, false] {
            for multi in [false, true] {
                for self_loops in [false, true] {
                    for dedupe in [Dedupe::Error, Dedupe::KeepFirst, Dedupe::KeepLast] {
                        for missing_create in [false, true] {
                            for loops_drop in [false, true] {
                                v.push(Specs {
                                    directed,
                                    multi,
                                    self_loops,
                                    dedupe,
                                    missing_create,
                                    loops_drop,
                                });
                            }
                        }
                    }
                }
            }
        }
        v
    }
    /// permissive specs of one of the 8 kinds (used to build algorithm inputs)
    pub fn kind(directed: bool, multi: bool, self_loops: bool) -> Specs {
        Specs {
            directed,
            multi,
            self_loops,
            dedupe: Dedupe::KeepLast,
            missing_create: true,
            loops_drop: true,
        }
    }
    pub fn to_real(&self) -> GraphSpecs {
        GraphSpecs {
            directed: self.directed,
            edge_dedupe_strategy: match self.dedupe {
                Dedupe::Error => EdgeDedupeStrategy::Error,
                Dedupe::KeepFirst => EdgeDedupeStrategy::KeepFirst,
                Dedupe::KeepLast => EdgeDedupeStrategy::KeepLast,
            },
            missing_node_strategy: if self.missing_create {
                MissingNodeStrategy::Create
            } else {
                MissingNodeStrategy::Error
            },
            multi_edges: self.multi,
            self_loops: self.self_loops,
            self_loops_false_strategy: if self.loops_drop {
                SelfLoopsFalseStrategy::Drop
            } else {
                SelfLoopsFalseStrategy::Error
            },
        }
    }
    pub fn from_real(s: &GraphSpecs) -> Specs {
        Specs {
            directed: s.directed,
            multi: s.multi_edges,
            self_loops: s.self_loops,
            dedupe: match s.edge_dedupe_strategy {
                EdgeDedupeStrategy::Error => Dedupe::Error,
                EdgeDedupeStrategy::KeepFirst => Dedupe::KeepFirst,
                EdgeDedupeStrategy::KeepLast => Dedupe::KeepLast,
            },
            missing_create: s.missing_node_strategy == MissingNodeStrategy::Create,
            loops_drop: s.self_loops_false_strategy == SelfLoopsFalseStrategy::Drop,
        }
    }
    pub fn label(&self) -> String {
        format!(
            "{}{}{}-{:?}-{}-{}",
            if self.directed { "D" } else { "U" },
            if self.multi { "M" } else { "S" },
            if self.self_loops { "L" } else { "N" },
            self.dedupe,
            if self.missing_create { "create" } else { "nomissing" },
            if self.loops_drop { "drop" } else { "loopserr" }
        )
    }
    pub fn kind_label(&self) -> String {
        format!(
            "{}{}{}",
            if self.directed { "D" } else { "U" },
            if self.multi { "M" } else { "S" },
            if self.self_loops { "L" } else { "N" }
        )
    }
}

#[derive(Clone, Debug)]
pub struct MEdge {
    pub u: String,
    pub v: String,
    pub w: f64,
    pub attr: Option<i32>,
}

impl MEdge {
    pub fn new(u: &str, v: &str, w: f64, attr: Option<i32>) -> MEdge {
        MEdge {
            u: u.to_string(),
            v: v.to_string(),
            w,
            attr,
        }
    }
    pub fn to_real(&self) -> Arc<Edge<String, i32>> {
        Arc::new(Edge {
            u: self.u.clone(),
            v: self.v.clone(),
            attributes: self.attr,
            weight: self.w,
        })
    }
    pub fn is_loop(&self) -> bool {
        self.u == self.v
    }
}

pub fn mnode(name: &str, attr: Option<i32>) -> Arc<Node<String, i32>> {
    Arc::new(Node {
        name: name.to_string(),
        attributes: attr,
    })
}

/// weight rendering that treats every NaN as one class and otherwise uses the bits
pub fn wkey(w: f64) -> String {
    if w.is_nan() {
        "nan".to_string()
    } else {
        format!("{:016x}", w.to_bits())
    }
}

/// JSON rendering of a weight that keeps NaN (null), +-inf and -0.0 apart
pub fn wjson(w: f64) -> serde_json::Value {
    if w.is_nan() {
        serde_json::Value::Null
    } else if w.is_infinite() || (w == 0.0 && w.is_sign_negative()) {
        serde_json::json!(format!("{}", w))
    } else {
        serde_json::json!(w)
    }
}

/// canonical rendering of an edge; undirected edges are rendered with sorted endpoints
pub fn ekey(directed: bool, u: &str, v: &str, w: f64, attr: &Option<i32>) -> String {
    let (a, b) = if !directed && u > v { (v, u) } else { (u, v) };
    format!("{:?}>{:?}|{}|{:?}", a, b, wkey(w), attr)
}

#[derive(Clone, Copy, PartialEq, Eq, Debug)]
pub enum Outcome {
    Ok,
    SelfLoops,
    NodeNotFound,
    Duplicate,
}

pub fn outcome_of(r: &Result<(), graphrs::Error>) -> Result<Outcome, String> {
    match r {
        Ok(()) => Ok(Outcome::Ok),
        Err(e) => match e.kind {
            ErrorKind::SelfLoopsFound => Ok(Outcome::SelfLoops),
            ErrorKind::NodeNotFound => Ok(Outcome::NodeNotFound),
            ErrorKind::DuplicateEdge => Ok(Outcome::Duplicate),
            _ => Err(format!("{:?}", e.kind)),
        },
    }
}

#[derive(Clone, Debug)]
pub struct Model {
    pub specs: Specs,
    pub nodes: Vec<(String, Option<i32>)>,
    pub edges: Vec<MEdge>,
}

impl Model {
    pub fn new(specs: Specs) -> Model {
        Model {
            specs,
            nodes: vec![],
            edges: vec![],
        }
    }
    pub fn has_node(&self, n: &str) -> bool {
        self.nodes.iter().any(|(x, _)| x == n)
    }
    pub fn node_index(&self, n: &str) -> Option<usize> {
        self.nodes.iter().position(|(x, _)| x == n)
    }
    pub fn add_node(&mut self, name: &str, attr: Option<i32>) {
        match self.nodes.iter_mut().find(|(x, _)| x == name) {
            Some(slot) => slot.1 = attr,
            None => self.nodes.push((name.to_string(), attr)),
        }
    }
    pub fn same_pair(&self, e: &MEdge, u: &str, v: &str) -> bool {
        (e.u == u && e.v == v) || (!self.specs.directed && e.u == v && e.v == u)
    }
    pub fn edges_between(&self, u: &str, v: &str) -> Vec<&MEdge> {
        self.edges.iter().filter(|e| self.same_pair(e, u, v)).collect()
    }

    /// All (outcome, resulting model) pairs the C01 statement allows for `add_edge(e)`.
    pub fn add_edge_alternatives(&self, e: &MEdge) -> Vec<(Outcome, Model)> {
        let s = &self.specs;
        let missing = !self.has_node(&e.u) || !self.has_node(&e.v);
        if e.is_loop() && !s.self_loops {
            let mut alts = vec![];
            if s.loops_drop {
                alts.push((Outcome::Ok, self.clone()));
                if missing {
                    if s.missing_create {
                        // the statement does not say whether a dropped edge creates its node
                        let mut m = self.clone();
                        m.add_node(&e.u, None);
                        alts.push((Outcome::Ok, m));
                    } else {
                        alts.push((Outcome::NodeNotFound, self.clone()));
                    }
                }
            } else {
                alts.push((Outcome::SelfLoops, self.clone()));
                if missing && !s.missing_create {
                    alts.push((Outcome::NodeNotFound, self.clone()));
                }
            }
            return alts;
        }
        if missing && !s.missing_create {
            return vec![(Outcome::NodeNotFound, self.clone())];
        }
        let exists = !self.edges_between(&e.u, &e.v).is_empty();
        if exists && !s.multi && s.dedupe == Dedupe::Error {
            // rejected: nothing changes, not even the nodes (both exist, or the pair could not exist)
            return vec![(Outcome::Duplicate, self.clone())];
        }
        let mut m = self.clone();
        if !m.has_node(&e.u) {
            m.add_node(&e.u, None);
        }
        if !m.has_node(&e.v) {
            m.add_node(&e.v, None);
        }
        if s.multi || !exists {
            m.edges.push(e.clone());
        } else {
            match s.dedupe {
                Dedupe::KeepFirst => {}
                Dedupe::KeepLast => {
                    let pos = m
                        .edges
                        .iter()
                        .position(|x| self.same_pair(x, &e.u, &e.v))
                        .unwrap();
                    m.edges[pos] = e.clone();
                }
                Dedupe::Error => unreachable!(),
            }
        }
        vec![(Outcome::Ok, m)]
    }

    // ------------------------------------------------------------ expected query answers

    pub fn edge_keys(&self) -> Vec<String> {
        let mut v: Vec<String> = self
            .edges
            .iter()
            .map(|e| ekey(self.specs.directed, &e.u, &e.v, e.w, &e.attr))
            .collect();
        v.sort();
        v
    }
    pub fn succ(&self, x: &str) -> BTreeSet<String> {
        let mut s = BTreeSet::new();
        for e in &self.edges {
            if e.u == x {
                s.insert(e.v.clone());
            }
            if !self.specs.directed && e.v == x {
                s.insert(e.u.clone());
            }
        }
        s
    }
    pub fn pred(&self, x: &str) -> BTreeSet<String> {
        let mut s = BTreeSet::new();
        if self.specs.directed {
            for e in &self.edges {
                if e.v == x {
                    s.insert(e.u.clone());
                }
            }
        }
        s
    }
    pub fn neighbors(&self, x: &str) -> BTreeSet<String> {
        let mut s = self.succ(x);
        s.extend(self.pred(x));
        s
    }
    pub fn reachable(&self, x: &str) -> BTreeSet<String> {
        let mut seen = BTreeSet::new();
        let mut stack = vec![x.to_string()];
        while let Some(v) = stack.pop() {
            if seen.insert(v.clone()) {
                for w in self.succ(&v) {
                    stack.push(w);
                }
            }
        }
        seen
    }
    /// minimum weight among the stored edges u->v (u-v); None if no edge.
    /// NaN-weighted pairs give Some(NaN).
    pub fn min_weight(&self, u: &str, v: &str) -> Option<f64> {
        let es = self.edges_between(u, v);
        if es.is_empty() {
            return None;
        }
        let mut best = f64::NAN;
        for e in es {
            if best.is_nan() || e.w < best {
                best = e.w;
            }
        }
        Some(best)
    }
    pub fn degree(&self, x: &str) -> usize {
        self.edges
            .iter()
            .map(|e| (e.u == x) as usize + (e.v == x) as usize)
            .sum()
    }
    pub fn in_degree(&self, x: &str) -> usize {
        self.edges.iter().filter(|e| e.v == x).count()
    }
    pub fn out_degree(&self, x: &str) -> usize {
        self.edges.iter().filter(|e| e.u == x).count()
    }

    /// Builds the real graph for this model through `new_from_nodes_and_edges`-free primitive
    /// calls (add_node / add_edge), panics are the caller's business.
    pub fn json(&self) -> serde_json::Value {
        serde_json::json!({
            "specs": self.specs.label(),
            "nodes": self.nodes.iter().map(|(n, a)| serde_json::json!([n, a])).collect::<Vec<_>>(),
            "edges": self.edges.iter().map(|e| serde_json::json!([e.u, e.v, wjson(e.w), e.attr])).collect::<Vec<_>>(),
        })
    }
    /// exact state key: node list in order, edge list in insertion order, weights by bits
    pub fn key(&self) -> String {
        let mut s = format!("{}|{:?}|", self.specs.label(), self.nodes);
        for e in &self.edges {
            s.push_str(&format!("{:?}>{:?}|{}|{:?};", e.u, e.v, wkey(e.w), e.attr));
        }
        s
    }
}

// -------------------------------------------------------------------- observation of a graph

pub fn err_name(k: &ErrorKind) -> &'static str {
    match k {
        ErrorKind::ContradictoryPaths => "ContradictoryPaths",
        ErrorKind::DuplicateEdge => "DuplicateEdge",
        ErrorKind::InvalidArgument => "InvalidArgument",
        ErrorKind::NodeNotFound => "NodeNotFound",
        ErrorKind::NoPartitions => "NoPartitions",
        ErrorKind::NotAPartition => "NotAPartition",
        ErrorKind::EdgeNotFound => "EdgeNotFound",
        ErrorKind::EdgeWeightNotSpecified => "EdgeWeightNotSpecified",
        ErrorKind::PowerIterationFailedConvergence => "PowerIterationFailedConvergence",
        ErrorKind::ReadError => "ReadError",
        ErrorKind::SelfLoopsFound => "SelfLoopsFound",
        ErrorKind::WrongMethod => "WrongMethod",
    }
}

pub fn real_edge_key(directed: bool, e: &Edge<String, i32>) -> String {
    ekey(directed, &e.u, &e.v, e.weight, &e.attributes)
}

pub fn sorted_edge_keys<'a>(
    directed: bool,
    es: impl IntoIterator<Item = &'a Arc<Edge<String, i32>>>,
) -> Vec<String> {
    let mut v: Vec<String> = es.into_iter().map(|e| real_edge_key(directed, e)).collect();
    v.sort();
    v
}

/// A canonical, hash-order independent rendering of (almost) everything the public read API
/// says about `g`, for the name universe `names` (which should include an absent name).
/// Used to check "a failed call changes nothing" and "the source graph is unchanged".
pub fn observation_vector(g: &G, names: &[String]) -> Vec<String> {
    let d = g.specs.directed;
    let mut out = vec![];
    out.push(format!(
        "nodes:{:?}",
        g.get_all_nodes()
            .iter()
            .map(|n| (n.name.clone(), n.attributes))
            .collect::<Vec<_>>()
    ));
    out.push(format!("names:{:?}", g.get_all_node_names()));
    out.push(format!("edges:{:?}", sorted_edge_keys(d, g.get_all_edges())));
    out.push(format!(
        "n:{} m:{} size:{} weighted:{}",
        g.number_of_nodes(),
        g.number_of_edges(),
        g.size(false),
        g.edges_have_weight()
    ));
    let rel = |m: &std::collections::HashMap<String, std::collections::HashSet<String>>| {
        let mut b: BTreeMap<String, BTreeSet<String>> = BTreeMap::new();
        for (k, v) in m {
            if !v.is_empty() {
                b.insert(k.clone(), v.iter().cloned().collect());
            }
        }
        format!("{:?}", b)
    };
    out.push(format!("succmap:{}", rel(g.get_successors_map())));
    out.push(format!("predmap:{}", rel(g.get_predecessors_map())));
    for (i, u) in names.iter().enumerate() {
        out.push(format!("has {:?}:{}", u, g.has_node(u)));
        out.push(format!(
            "node {:?}:{:?}",
            u,
            g.get_node(u.clone()).map(|n| (n.name.clone(), n.attributes))
        ));
        out.push(format!(
            "byindex {}:{:?}",
            i,
            g.get_node_by_index(&i).map(|n| (n.name.clone(), n.attributes))
        ));
        let r1 = |r: Result<Vec<&Arc<Edge<String, i32>>>, graphrs::Error>| match r {
            Ok(es) => format!("{:?}", sorted_edge_keys(d, es)),
            Err(e) => err_name(&e.kind).to_string(),
        };
        let rn = |r: Result<Vec<&Arc<Node<String, i32>>>, graphrs::Error>| match r {
            Ok(ns) => {
                let mut v: Vec<String> = ns.iter().map(|n| n.name.clone()).collect();
                v.sort();
                format!("{:?}", v)
            }
            Err(e) => err_name(&e.kind).to_string(),
        };
        out.push(format!("efn {:?}:{}", u, r1(g.get_edges_for_node(u.clone()))));
        out.push(format!("in {:?}:{}", u, r1(g.get_in_edges_for_node(u.clone()))));
        out.push(format!("out {:?}:{}", u, r1(g.get_out_edges_for_node(u.clone()))));
        out.push(format!("nbr {:?}:{}", u, rn(g.get_neighbor_nodes(u.clone()))));
        out.push(format!("succ {:?}:{}", u, rn(g.get_successor_nodes(u.clone()))));
        out.push(format!("pred {:?}:{}", u, rn(g.get_predecessor_nodes(u.clone()))));
        out.push(format!(
            "deg {:?}:{:?}/{:?}/{:?}",
            u,
            g.get_node_degree(u.clone()),
            g.get_node_in_degree(u.clone()),
            g.get_node_out_degree(u.clone())
        ));
        for v in names {
            let pe = match g.get_edge(u.clone(), v.clone()) {
                Ok(e) => real_edge_key(d, e),
                Err(e) => err_name(&e.kind).to_string(),
            };
            let pes = match g.get_edges(u.clone(), v.clone()) {
                // parallel edges are listed in insertion order: keep the order
                Ok(es) => format!(
                    "{:?}",
                    es.iter().map(|e| real_edge_key(d, e)).collect::<Vec<_>>()
                ),
                Err(e) => err_name(&e.kind).to_string(),
            };
            out.push(format!("pair {:?},{:?}:{} / {}", u, v, pe, pes));
        }
    }
    out
}

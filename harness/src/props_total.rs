//! C20: every public function, on every small graph of every kind, returns a value or an
//! error — never a panic, an abort or a hang. Also produces per-case digests of all returned
//! values so that the checked and the plain build can be compared by the driver.

use crate::ctx::{self, guard, Args};
use crate::gen::*;
use crate::hist::kind_class;
use crate::model::{err_name, wkey, Specs};
use crate::rng::{fnv, mix, Rng};
use graphrs::algorithms::centrality::{betweenness, closeness, degree, eigenvector};
use graphrs::algorithms::cluster;
use graphrs::algorithms::community::{louvain, partitions};
use graphrs::algorithms::components;
use graphrs::algorithms::shortest_path::dijkstra;
use graphrs::generators::{classic, random, social};
use graphrs::readwrite::graphml;
use graphrs::{Edge, Error, Graph, GraphSpecs, Node};
use serde_json::{json, Value};
use std::collections::{BTreeMap, BTreeSet, HashMap, HashSet};
use std::fmt::Debug;
use std::sync::Arc;

pub const COVERED: &[&str] = &[
    "add_edge", "add_edge_tuple", "add_edge_tuples", "add_edges", "add_node", "add_nodes", "all_pairs", "average_clustering",
    "betweenness_centrality", "bfs_equal_size_partitions", "breadth_first_search", "closeness_centrality", "clustering", "complete_graph",
    "connected_components", "contains_path_through_node", "degree_centrality", "directed", "directed_create_missing", "edges_have_weight",
    "eigenvector_centrality", "ensure_directed", "ensure_not_multi_edges", "ensure_undirected", "ensure_weighted", "fast_gnp_random_graph",
    "from_name", "from_name_and_attributes", "generalized_degree", "get_all_edges", "get_all_node_names", "get_all_nodes",
    "get_all_shortest_paths_involving", "get_degree_for_all_nodes", "get_density", "get_edge", "get_edges", "get_edges_for_node",
    "get_edges_for_nodes", "get_in_degree_for_all_nodes", "get_in_edges_for_node", "get_in_edges_for_nodes", "get_neighbor_nodes", "get_node",
    "get_node_by_index", "get_node_degree", "get_node_in_degree", "get_node_out_degree", "get_node_weighted_degree",
    "get_node_weighted_in_degree", "get_node_weighted_out_degree", "get_out_degree_for_all_nodes", "get_out_edges_for_node",
    "get_out_edges_for_nodes", "get_predecessor_node_names", "get_predecessor_nodes", "get_predecessors_map", "get_sparse_adjacency_matrix",
    "get_subgraph", "get_successor_node_names", "get_successor_nodes", "get_successors_map", "get_successors_or_neighbors",
    "get_weighted_degree_for_all_nodes", "get_weighted_in_degree_for_all_nodes", "get_weighted_out_degree_for_all_nodes", "has_node",
    "has_nodes", "is_partition", "karate_club_graph", "louvain_communities", "louvain_partitions", "modularity", "multi_directed",
    "multi_source", "multi_undirected", "new", "new_from_nodes_and_edges", "node_connected_component", "number_of_connected_components",
    "number_of_edges", "number_of_nodes", "ordered", "read_graphml_file", "read_graphml_string", "reverse", "reversed",
    "set_all_edge_weights", "single_source", "size", "square_clustering", "strongly_connected_components", "to_single_edges", "transitivity",
    "triangles", "undirected", "undirected_create_missing", "weakly_connected_components", "with_weight", "write_graphml_file",
    "write_graphml_string",
];

fn f12(x: f64) -> String {
    if x.is_nan() {
        "nan".into()
    } else if x == 0.0 {
        "0.00000000000e0".into()
    } else {
        format!("{:.11e}", x)
    }
}

fn fmap(m: &HashMap<String, f64>) -> String {
    let b: BTreeMap<&String, String> = m.iter().map(|(k, v)| (k, f12(*v))).collect();
    format!("{:?}", b)
}

fn umap<V: Debug>(m: &HashMap<String, V>) -> String {
    let b: BTreeMap<&String, &V> = m.iter().collect();
    format!("{:?}", b)
}

fn sets(v: &[HashSet<String>]) -> String {
    let b: BTreeSet<BTreeSet<&String>> = v.iter().map(|s| s.iter().collect()).collect();
    format!("{:?}", b)
}

fn edges_str(g: &GS, es: Vec<&Arc<Edge<String, ()>>>) -> String {
    let mut v: Vec<String> = es.iter().map(|e| crate::model::ekey(g.specs.directed, &e.u, &e.v, e.weight, &None)).collect();
    v.sort();
    format!("{:?}", v)
}

fn nodes_str(ns: Vec<&Arc<Node<String, ()>>>) -> String {
    let mut v: Vec<&String> = ns.iter().map(|n| &n.name).collect();
    v.sort();
    format!("{:?}", v)
}

fn res<T>(r: Result<T, Error>, f: impl FnOnce(T) -> String) -> String {
    match r {
        Ok(v) => format!("Ok({})", f(v)),
        Err(e) => format!("Err({})", err_name(&e.kind)),
    }
}

fn graph_str(g: &GS) -> String {
    format!(
        "{:?}|{}|{}",
        g.get_all_nodes().iter().map(|n| n.name.clone()).collect::<Vec<_>>(),
        edges_str(g, g.get_all_edges()),
        Specs::from_real(&g.specs).label()
    )
}

struct Rec {
    kind: String,
    buf: String,
    calls: u64,
    graph: Value,
    dump: Vec<(String, String)>,
    want_dump: bool,
}

impl Rec {
    fn call(&mut self, fname: &'static str, args: String, f: impl FnOnce() -> String) {
        self.calls += 1;
        match guard(fname, f) {
            Ok(s) => {
                self.buf.push_str(fname);
                self.buf.push('(');
                self.buf.push_str(&args);
                self.buf.push_str(")=");
                self.buf.push_str(&s);
                self.buf.push('\n');
                if self.want_dump {
                    self.dump.push((format!("{}({})", fname, args), s));
                }
            }
            Err(c) => {
                ctx::violation(
                    &format!("C20|{}|{}|{}", fname, c.class(), self.kind),
                    &format!("{} did not return: {}", fname, c.class()),
                    json!({"args": args, "caught": c.json(), "graph": self.graph}),
                );
                self.buf.push_str(&format!("{}({})=PANIC\n", fname, args));
            }
        }
    }
}

/// Calls every public function on `g`. Returns (digest of all outcomes, number of calls).
fn call_everything(case: &GCase, g: &GS, rng: &mut Rng, want_dump: bool) -> (u64, u64, Vec<(String, String)>) {
    let names: Vec<String> = g.get_all_nodes().iter().map(|n| n.name.clone()).collect();
    let n = names.len();
    let absent = "zz-absent".to_string();
    let mut with_absent = names.clone();
    with_absent.push(absent.clone());
    let mut r = Rec { kind: kind_class(g), buf: String::new(), calls: 0, graph: case.json(), dump: vec![], want_dump };
    let all_weighted = g.edges_have_weight();

    // ---- whole-graph queries
    r.call("get_all_nodes", "".into(), || nodes_str(g.get_all_nodes()));
    r.call("get_all_node_names", "".into(), || format!("{:?}", g.get_all_node_names()));
    r.call("get_all_edges", "".into(), || edges_str(g, g.get_all_edges()));
    r.call("number_of_nodes", "".into(), || format!("{}", g.number_of_nodes()));
    r.call("number_of_edges", "".into(), || format!("{}", g.number_of_edges()));
    r.call("size", "false".into(), || f12(g.size(false)));
    r.call("size", "true".into(), || f12(g.size(true)));
    r.call("edges_have_weight", "".into(), || format!("{}", g.edges_have_weight()));
    r.call("get_density", "".into(), || f12(g.get_density()));
    r.call("get_successors_map", "".into(), || format!("{:?}", g.get_successors_map().iter().filter(|(_, v)| !v.is_empty()).map(|(k, v)| (k, v.iter().collect::<BTreeSet<_>>())).collect::<BTreeMap<_, _>>()));
    r.call("get_predecessors_map", "".into(), || format!("{:?}", g.get_predecessors_map().iter().filter(|(_, v)| !v.is_empty()).map(|(k, v)| (k, v.iter().collect::<BTreeSet<_>>())).collect::<BTreeMap<_, _>>()));
    r.call("ensure_directed", "".into(), || res(g.ensure_directed(), |_| "".into()));
    r.call("ensure_undirected", "".into(), || res(g.ensure_undirected(), |_| "".into()));
    r.call("ensure_not_multi_edges", "".into(), || res(g.ensure_not_multi_edges(), |_| "".into()));
    r.call("ensure_weighted", "".into(), || res(g.ensure_weighted(), |_| "".into()));
    r.call("get_degree_for_all_nodes", "".into(), || umap(&g.get_degree_for_all_nodes()));
    r.call("get_in_degree_for_all_nodes", "".into(), || res(g.get_in_degree_for_all_nodes(), |m| umap(&m)));
    r.call("get_out_degree_for_all_nodes", "".into(), || res(g.get_out_degree_for_all_nodes(), |m| umap(&m)));
    r.call("get_weighted_degree_for_all_nodes", "".into(), || fmap(&g.get_weighted_degree_for_all_nodes()));
    r.call("get_weighted_in_degree_for_all_nodes", "".into(), || res(g.get_weighted_in_degree_for_all_nodes(), |m| fmap(&m)));
    r.call("get_weighted_out_degree_for_all_nodes", "".into(), || res(g.get_weighted_out_degree_for_all_nodes(), |m| fmap(&m)));
    r.call("get_sparse_adjacency_matrix", "".into(), || {
        res(g.get_sparse_adjacency_matrix(), |m| {
            let mut s = format!("{}x{}:", m.rows(), m.cols());
            for i in 0..m.rows() {
                for j in 0..m.cols() {
                    if let Some(v) = m.get(i, j) {
                        s.push_str(&format!("({},{})={};", i, j, f12(*v)));
                    }
                }
            }
            s
        })
    });
    for i in 0..(n + 1) {
        r.call("get_node_by_index", format!("{}", i), || format!("{:?}", g.get_node_by_index(&i).map(|x| &x.name)));
    }
    // ---- per-node queries, existing names and one absent name (all have an error channel)
    for u in &with_absent {
        let a = format!("{:?}", u);
        r.call("has_node", a.clone(), || format!("{}", g.has_node(u)));
        r.call("get_node", a.clone(), || format!("{:?}", g.get_node(u.clone()).map(|x| &x.name)));
        r.call("get_edges_for_node", a.clone(), || res(g.get_edges_for_node(u.clone()), |e| edges_str(g, e)));
        r.call("get_in_edges_for_node", a.clone(), || res(g.get_in_edges_for_node(u.clone()), |e| edges_str(g, e)));
        r.call("get_out_edges_for_node", a.clone(), || res(g.get_out_edges_for_node(u.clone()), |e| edges_str(g, e)));
        r.call("get_neighbor_nodes", a.clone(), || res(g.get_neighbor_nodes(u.clone()), nodes_str));
        r.call("get_successor_nodes", a.clone(), || res(g.get_successor_nodes(u.clone()), nodes_str));
        r.call("get_predecessor_nodes", a.clone(), || res(g.get_predecessor_nodes(u.clone()), nodes_str));
        r.call("get_successor_node_names", a.clone(), || res(g.get_successor_node_names(u.clone()), |v| format!("{:?}", v.into_iter().collect::<BTreeSet<_>>())));
        r.call("get_predecessor_node_names", a.clone(), || res(g.get_predecessor_node_names(u.clone()), |v| format!("{:?}", v.into_iter().collect::<BTreeSet<_>>())));
        r.call("get_node_degree", a.clone(), || format!("{:?}", g.get_node_degree(u.clone())));
        r.call("get_node_in_degree", a.clone(), || format!("{:?}", g.get_node_in_degree(u.clone())));
        r.call("get_node_out_degree", a.clone(), || format!("{:?}", g.get_node_out_degree(u.clone())));
        r.call("get_node_weighted_degree", a.clone(), || format!("{:?}", g.get_node_weighted_degree(u.clone()).map(f12)));
        r.call("get_node_weighted_in_degree", a.clone(), || format!("{:?}", g.get_node_weighted_in_degree(u.clone()).map(f12)));
        r.call("get_node_weighted_out_degree", a.clone(), || format!("{:?}", g.get_node_weighted_out_degree(u.clone()).map(f12)));
        r.call("node_connected_component", a.clone(), || res(components::node_connected_component(g, u), |s| format!("{:?}", s.into_iter().collect::<BTreeSet<_>>())));
        for v in &with_absent {
            let a2 = format!("{:?},{:?}", u, v);
            r.call("get_edge", a2.clone(), || res(g.get_edge(u.clone(), v.clone()), |e| crate::model::ekey(g.specs.directed, &e.u, &e.v, e.weight, &None)));
            r.call("get_edges", a2.clone(), || res(g.get_edges(u.clone(), v.clone()), |e| format!("{}", e.len())));
        }
        let set = vec![u.clone(), names.first().cloned().unwrap_or(absent.clone())];
        let a3 = format!("{:?}", set);
        r.call("has_nodes", a3.clone(), || format!("{}", g.has_nodes(&set)));
        r.call("get_edges_for_nodes", a3.clone(), || res(g.get_edges_for_nodes(&set), |e| edges_str(g, e)));
        r.call("get_in_edges_for_nodes", a3.clone(), || res(g.get_in_edges_for_nodes(&set), |e| edges_str(g, e)));
        r.call("get_out_edges_for_nodes", a3.clone(), || res(g.get_out_edges_for_nodes(&set), |e| edges_str(g, e)));
        r.call("get_subgraph", a3.clone(), || graph_str(&g.get_subgraph(&set)));
    }
    // ---- functions without an error channel: existing names only
    for u in &names {
        let a = format!("{:?}", u);
        r.call("get_successors_or_neighbors", a.clone(), || nodes_str(g.get_successors_or_neighbors(u.clone())));
        r.call("breadth_first_search", a.clone(), || format!("{:?}", g.breadth_first_search(u).into_iter().collect::<BTreeSet<_>>()));
        r.call("get_all_shortest_paths_involving", format!("{},false", a), || format!("{}", dijkstra::get_all_shortest_paths_involving(g, u.clone(), false).len()));
        r.call("get_all_shortest_paths_involving", format!("{},true", a), || format!("{}", dijkstra::get_all_shortest_paths_involving(g, u.clone(), true).len()));
    }
    // ---- derived graphs
    r.call("reverse", "".into(), || res(g.reverse(), |x| graph_str(&x)));
    r.call("to_single_edges", "".into(), || res(g.to_single_edges(), |x| graph_str(&x)));
    r.call("set_all_edge_weights", "2.5".into(), || graph_str(&g.set_all_edge_weights(2.5)));
    r.call("set_all_edge_weights", "NaN".into(), || graph_str(&g.set_all_edge_weights(f64::NAN)));
    r.call("get_subgraph", "[]".into(), || graph_str(&g.get_subgraph(&[])));
    r.call("get_subgraph", "all".into(), || graph_str(&g.get_subgraph(&names)));
    if names.len() >= 2 {
        let mut rep: Vec<String> = names.clone();
        let last = rep.len() - 1;
        rep[last] = rep[0].clone();
        r.call("get_subgraph", "n entries, one repeated".into(), || graph_str(&g.get_subgraph(&rep)));
        r.call("multi_source", "n entries, one repeated".into(), || res(dijkstra::multi_source(g, false, rep.clone(), None, None, false, true), |m| format!("{}", m.len())));
    }
    // ---- centralities
    for w in [false, true] {
        for b in [false, true] {
            r.call("betweenness_centrality", format!("{},{}", w, b), || res(betweenness::betweenness_centrality(g, w, b), |m| fmap(&m)));
            r.call("closeness_centrality", format!("{},{}", w, b), || res(closeness::closeness_centrality(g, w, b), |m| fmap(&m)));
        }
        r.call("eigenvector_centrality", format!("{},50,1e-6", w), || res(eigenvector::eigenvector_centrality(g, w, Some(50), Some(1e-6)), |m| if all_weighted || !w { format!("{} entries", m.len()) } else { "n/a".into() }));
        r.call("eigenvector_centrality", format!("{},1,1e-12", w), || res(eigenvector::eigenvector_centrality(g, w, Some(1), Some(1e-12)), |m| format!("{} entries", m.len())));
        r.call("eigenvector_centrality", format!("{},None,None", w), || res(eigenvector::eigenvector_centrality(g, w, None, None), |m| format!("{} entries", m.len())));
    }
    r.call("degree_centrality", "".into(), || fmap(&degree::degree_centrality(g)));
    // ---- clustering family: full, a proper subset, an absent name
    let subset: Vec<String> = names.iter().take(1).cloned().collect();
    let bad = vec![absent.clone()];
    // as many (and more) entries as nodes, but with one node left out and others repeated
    let mut repeated: Vec<String> = names.clone();
    if repeated.len() >= 2 {
        let last = repeated.len() - 1;
        repeated[last] = repeated[0].clone();
    }
    let mut repeated_long: Vec<String> = names.iter().skip(1).cloned().collect();
    repeated_long.extend(names.iter().skip(1).cloned());
    repeated_long.extend(names.iter().skip(1).take(1).cloned());
    let mut subsets: Vec<(String, Option<&[String]>, bool)> = vec![("None".into(), None, true), ("first".into(), if subset.is_empty() { None } else { Some(&subset[..]) }, true), ("absent".into(), Some(&bad[..]), false)];
    if names.len() >= 2 {
        subsets.push(("n entries, one node left out".into(), Some(&repeated[..]), true));
        subsets.push(("2n-1 entries, first node left out".into(), Some(&repeated_long[..]), true));
    }
    for (label, sub, existing) in &subsets {
        for w in [false, true] {
            r.call("clustering", format!("{},{}", w, label), || res(cluster::clustering(g, w, *sub), |m| fmap(&m)));
            r.call("average_clustering", format!("{},{},true", w, label), || res(cluster::average_clustering(g, w, *sub, true), f12));
            r.call("average_clustering", format!("{},{},false", w, label), || res(cluster::average_clustering(g, w, *sub, false), f12));
        }
        r.call("triangles", label.clone(), || res(cluster::triangles(g, *sub), |m| umap(&m)));
        r.call("generalized_degree", label.clone(), || res(cluster::generalized_degree(g, *sub), |m| format!("{:?}", m.into_iter().map(|(k, v)| (k, v.into_iter().collect::<BTreeMap<_, _>>())).collect::<BTreeMap<_, _>>())));
        if *existing {
            // square_clustering has no error channel: names that exist only
            r.call("square_clustering", label.clone(), || fmap(&cluster::square_clustering(g, *sub)));
        }
    }
    r.call("transitivity", "".into(), || res(cluster::transitivity(g), f12));
    // ---- communities
    let singletons: Vec<HashSet<String>> = names.iter().map(|x| [x.clone()].into_iter().collect()).collect();
    let whole: Vec<HashSet<String>> = vec![names.iter().cloned().collect()];
    let foreign: Vec<HashSet<String>> = {
        // as many names as nodes, but one real node replaced by an absent name
        let mut v: Vec<String> = names.clone();
        if let Some(last) = v.last_mut() {
            *last = absent.clone();
        }
        vec![v.into_iter().collect()]
    };
    let overlapping: Vec<HashSet<String>> = vec![names.iter().cloned().collect(), names.iter().take(1).cloned().collect()];
    for (label, fam) in [("singletons", &singletons), ("whole", &whole), ("foreign", &foreign), ("overlapping", &overlapping)] {
        r.call("is_partition", label.into(), || format!("{}", partitions::is_partition(g, fam)));
        for w in [false, true] {
            r.call("modularity", format!("{},{}", label, w), || res(partitions::modularity(g, fam, w, Some(1.0)), f12));
        }
        r.call("modularity", format!("{},None", label), || res(partitions::modularity(g, fam, false, None), f12));
    }
    let budget = 200 + 20 * n as u64;
    for w in [false, true] {
        for seed in [0u64, 7] {
            crate::ctx::set_budget("louvain_sweep", Some(budget));
            graphrs::verif_hooks::take_ticks("louvain_sweep");
            r.call("louvain_partitions", format!("{},{}", w, seed), || res(louvain::louvain_partitions(g, w, Some(1.0), None, Some(seed)), |l| format!("{:?}", l.iter().map(|x| sets(x)).collect::<Vec<_>>())));
            graphrs::verif_hooks::take_ticks("louvain_sweep");
            r.call("louvain_communities", format!("{},{}", w, seed), || res(louvain::louvain_communities(g, w, None, Some(0.0), Some(seed)), |l| sets(&l)));
            crate::ctx::set_budget("louvain_sweep", None);
        }
    }
    // ---- components
    r.call("connected_components", "".into(), || res(components::connected_components(g), |v| sets(&v)));
    r.call("number_of_connected_components", "".into(), || res(components::number_of_connected_components(g), |v| format!("{}", v)));
    r.call("weakly_connected_components", "".into(), || res(components::weakly_connected_components(g), |v| sets(&v)));
    r.call("strongly_connected_components", "".into(), || res(components::strongly_connected_components(g), |v| sets(&v)));
    for k in [1usize, 2, n.max(1), n + 1] {
        r.call("bfs_equal_size_partitions", format!("{}", k), || format!("{:?}", components::bfs_equal_size_partitions(g, k).iter().map(|p| p.len()).collect::<Vec<_>>()));
    }
    // ---- shortest paths
    let spi = |m: HashMap<String, dijkstra_info::Info>| -> String { format!("{:?}", m.into_iter().map(|(k, v)| (k, (f12(v.0), v.1))).collect::<BTreeMap<_, _>>()) };
    for w in [false, true] {
        for (first_only, with_paths) in [(false, true), (true, true), (false, false)] {
            r.call("all_pairs", format!("{},None,None,{},{}", w, first_only, with_paths), || {
                res(dijkstra::all_pairs(g, w, None, None, first_only, with_paths), |m| format!("{:?}", m.into_iter().map(|(s, inner)| (s, spi(dijkstra_info::conv(inner)))).collect::<BTreeMap<_, _>>()))
            });
        }
        r.call("all_pairs", format!("{},absent", w), || res(dijkstra::all_pairs(g, w, Some(absent.clone()), None, false, true), |m| format!("{}", m.len())));
        r.call("all_pairs", format!("{},cutoff3,nopaths", w), || res(dijkstra::all_pairs(g, w, None, Some(3.0), false, false), |m| format!("{}", m.len())));
        r.call("all_pairs", format!("{},target,nopaths", w), || res(dijkstra::all_pairs(g, w, names.last().cloned(), None, false, false), |m| format!("{}", m.len())));
        r.call("all_pairs", format!("{},cutoff1", w), || res(dijkstra::all_pairs(g, w, names.first().cloned(), Some(1.0), true, true), |m| format!("{}", m.len())));
        r.call("multi_source", format!("{},all", w), || res(dijkstra::multi_source(g, w, names.clone(), None, None, false, true), |m| format!("{}", m.len())));
        r.call("multi_source", format!("{},empty", w), || res(dijkstra::multi_source(g, w, vec![], None, None, false, true), |m| format!("{}", m.len())));
        r.call("multi_source", format!("{},absent-source", w), || res(dijkstra::multi_source(g, w, vec![absent.clone()], None, None, false, true), |m| format!("{}", m.len())));
        r.call("multi_source", format!("{},absent-target", w), || res(dijkstra::multi_source(g, w, names.clone(), Some(absent.clone()), None, false, true), |m| format!("{}", m.len())));
        for s in &with_absent {
            r.call("single_source", format!("{},{:?}", w, s), || res(dijkstra::single_source(g, w, s.clone(), None, None, false, true), |m| spi(dijkstra_info::conv(m))));
            let t = rng.pick(&with_absent).clone();
            r.call("single_source", format!("{},{:?},{:?},2.0", w, s, t), || res(dijkstra::single_source(g, w, s.clone(), Some(t.clone()), Some(2.0), rng_bool(s), true), |m| format!("{}", m.len())));
            r.call("single_source", format!("{},{:?},{:?},None,false,false", w, s, t), || res(dijkstra::single_source(g, w, s.clone(), Some(t.clone()), None, false, false), |m| format!("{}", m.len())));
            r.call("single_source", format!("{},{:?},None,3.0,false,false", w, s), || res(dijkstra::single_source(g, w, s.clone(), None, Some(3.0), false, false), |m| format!("{}", m.len())));
            r.call("single_source", format!("{},{:?},None,3.0,true,false", w, s), || res(dijkstra::single_source(g, w, s.clone(), None, Some(3.0), true, false), |m| format!("{}", m.len())));
        }
    }
    // ---- readwrite
    r.call("write_graphml_string", "".into(), || match graphml::write_graphml_string(g) {
        Ok(s) => format!("Ok({} bytes)", s.len()),
        Err(e) => format!("Err({})", e),
    });
    if let Ok(Ok(text)) = guard("write_graphml_string", || graphml::write_graphml_string(g)) {
        r.call("read_graphml_string", "own output".into(), || res(graphml::read_graphml_string(&text, g.specs.clone()), |x| graph_str(&x)));
        r.call("read_graphml_string", "own output, default specs".into(), || res(graphml::read_graphml_string(&text, GraphSpecs::directed()), |x| graph_str(&x)));
    }
    let d = fnv(r.buf.as_bytes());
    (d, r.calls, r.dump)
}

fn rng_bool(s: &str) -> bool {
    s.len() % 2 == 0
}

mod dijkstra_info {
    use graphrs::algorithms::shortest_path::ShortestPathInfo;
    use std::collections::HashMap;
    pub type Info = (f64, Vec<Vec<String>>);
    pub fn conv(m: HashMap<String, ShortestPathInfo<String>>) -> HashMap<String, Info> {
        m.into_iter()
            .map(|(k, v)| {
                let mut p = v.paths;
                p.sort();
                (k, (v.distance, p))
            })
            .collect()
    }
}

/// functions that do not take a graph
fn call_free_functions(r_seed: u64) {
    let mut r = Rec { kind: "none".into(), buf: String::new(), calls: 0, graph: json!(null), dump: vec![], want_dump: false };
    for n in [0, 1, 2, 3, 7] {
        for d in [false, true] {
            r.call("complete_graph", format!("{},{}", n, d), || format!("{}", classic::complete_graph(n, d).number_of_nodes()));
            for p in [0.0, 0.5, 1.0, 1e-9, 0.999999999] {
                r.call("fast_gnp_random_graph", format!("{},{},{}", n, p, d), || res(random::fast_gnp_random_graph(n, p, d, Some(r_seed)), |g| format!("{}", g.number_of_nodes())));
            }
            r.call("fast_gnp_random_graph", format!("{},0.5,{},None", n, d), || res(random::fast_gnp_random_graph(n, 0.5, d, None), |g| format!("{}", g.number_of_nodes())));
        }
    }
    r.call("karate_club_graph", "".into(), || format!("{}", social::karate_club_graph().number_of_nodes()));
    r.call("directed", "".into(), || Specs::from_real(&GraphSpecs::directed()).label());
    r.call("directed_create_missing", "".into(), || Specs::from_real(&GraphSpecs::directed_create_missing()).label());
    r.call("undirected", "".into(), || Specs::from_real(&GraphSpecs::undirected()).label());
    r.call("undirected_create_missing", "".into(), || Specs::from_real(&GraphSpecs::undirected_create_missing()).label());
    r.call("multi_directed", "".into(), || Specs::from_real(&GraphSpecs::multi_directed()).label());
    r.call("multi_undirected", "".into(), || Specs::from_real(&GraphSpecs::multi_undirected()).label());
    r.call("with_weight", "".into(), || {
        let e = Edge::<String, ()>::with_weight("b".into(), "a".into(), 2.0);
        let o = e.ordered();
        let v = e.reversed();
        format!("{}{}{}{}{}", e, o.u, o.v, v.u, wkey(v.weight))
    });
    r.call("from_name", "".into(), || {
        let a = Node::<String, i32>::from_name("x".into());
        let b = Node::<String, i32>::from_name_and_attributes("y".into(), 3);
        format!("{}{}{:?}", a, b, b.attributes)
    });
    r.call("contains_path_through_node", "".into(), || {
        let i = graphrs::algorithms::shortest_path::ShortestPathInfo { distance: 1.0, paths: vec![vec![1, 2, 3], vec![1], vec![]] };
        format!("{}{}", i.contains_path_through_node(2), i.contains_path_through_node(1))
    });
    let tmp = format!("/verif/.work/c20-{}.graphml", std::process::id());
    r.call("write_graphml_file", "".into(), || format!("{:?}", graphml::write_graphml_file(&social::karate_club_graph(), &tmp).is_ok()));
    r.call("read_graphml_file", "".into(), || res(graphml::read_graphml_file(&tmp, GraphSpecs::undirected()), |g| format!("{}", g.number_of_nodes())));
    let _ = std::fs::remove_file(&tmp);
    // mutation entry points on a fresh graph
    r.call("new", "".into(), || {
        let mut g: GS = Graph::new(GraphSpecs::undirected_create_missing());
        g.add_node(Node::from_name("a".to_string()));
        g.add_nodes(vec![Node::from_name("b".to_string())]);
        let r1 = g.add_edge(Edge::new("a".to_string(), "b".to_string())).is_ok();
        let r2 = g.add_edge_tuple("b".to_string(), "c".to_string()).is_ok();
        let r3 = g.add_edges(vec![Edge::with_weight("c".to_string(), "a".to_string(), 1.0)]).is_ok();
        let r4 = g.add_edge_tuples(vec![("a".to_string(), "a".to_string())]).is_ok();
        let r5 = Graph::<String, ()>::new_from_nodes_and_edges(vec![], vec![Edge::new("x".to_string(), "x".to_string())], GraphSpecs::directed()).is_ok();
        format!("{}{}{}{}{}{}", r1, r2, r3, r4, r5, g.number_of_edges())
    });
    ctx::eval(r.calls);
}

/// every graph on `n` nodes of the given kind, as multiplicity vectors over the allowed pairs
fn exhaustive_graphs(specs: Specs, n: usize) -> Vec<Vec<(usize, usize, usize)>> {
    let mut pairs = vec![];
    for u in 0..n {
        for v in 0..n {
            if u == v && !specs.self_loops {
                continue;
            }
            if !specs.directed && u > v {
                continue;
            }
            pairs.push((u, v));
        }
    }
    let base = if specs.multi { 3 } else { 2 };
    let total = (base as u64).pow(pairs.len() as u32);
    let mut out = vec![];
    for code in 0..total {
        let mut c = code;
        let mut g = vec![];
        for (u, v) in &pairs {
            let m = (c % base as u64) as usize;
            c /= base as u64;
            if m > 0 {
                g.push((*u, *v, m));
            }
        }
        out.push(g);
    }
    out
}

pub fn run_c20(a: &Args) {
    let want_dump = a.extra.iter().any(|e| e == "dump");
    let mut digests: BTreeMap<String, Value> = BTreeMap::new();
    let mut idx: u64 = 0;
    if ctx::mine(idx) {
        call_free_functions(a.seed);
        ctx::nontrivial(0xF7EE);
    }
    idx += 1;
    let kinds = kinds8();
    let maxn = if a.thorough { 3 } else { 2 };
    let names_pool = ["b", "a", "c"];
    // ---- exhaustive small scope
    for specs in &kinds {
        for n in 0..=maxn {
            for mults in exhaustive_graphs(*specs, n) {
                for weighted in [false, true] {
                    if weighted && mults.is_empty() {
                        continue;
                    }
                    let this = idx;
                    idx += 1;
                    if !ctx::mine(this) {
                        continue;
                    }
                    let mut edges = vec![];
                    for (u, v, m) in &mults {
                        for k in 0..*m {
                            edges.push((*u, *v, if weighted { 1.5 + k as f64 } else { f64::NAN }));
                        }
                    }
                    let case = GCase { specs: *specs, names: names_pool[..n].iter().map(|s| s.to_string()).collect(), edges, family: "exhaustive", wclass: if weighted { WClass::Exact } else { WClass::Unweighted } };
                    ctx::case_desc(case.json());
                    let g = case.build();
                    let mut rng = Rng::new(mix(a.seed ^ 0xC20, this));
                    let (d, calls, dump) = call_everything(&case, &g, &mut rng, want_dump);
                    ctx::eval(calls);
                    digests.insert(format!("{}", this), json!(format!("{:016x}", d)));
                    if want_dump {
                        ctx::note("dump", json!(dump));
                    }
                    ctx::nontrivial(case.hash());
                    ctx::count(&format!("exhaustive:{}:n{}", specs.kind_label(), n));
                    if this % 97 == 0 {
                        ctx::sample_tagged(&specs.kind_label(), || case.json());
                    }
                }
            }
        }
    }
    ctx::count("exhaustive:scope-completed");
    // ---- named degenerate shapes and random graphs (n <= 12)
    let base = 10_000_000u64;
    let shapes: &[&'static str] = &["star", "path", "components", "complete", "cycle", "tree", "gnp_sparse", "gnp_dense", "barbell", "nested_scc"];
    let extra: u64 = if a.thorough { 1200 } else { 240 };
    for r in 0..extra {
        let this = base + r;
        if !ctx::mine(this) {
            continue;
        }
        let mut rng = Rng::new(mix(a.seed ^ 0x5A20, this));
        let specs = kinds[(r % 8) as usize];
        let fam = shapes[((r / 8) as usize) % shapes.len()];
        let n = rng.range(1, 12);
        let wclass = *rng.pick(&[WClass::Unweighted, WClass::Exact, WClass::Generic]);
        let mut case = gen_case(specs, fam, n, wclass, &GenOpts { self_loops: rng.coin(), parallel: rng.coin(), shuffle_edges: true }, &mut rng);
        match r % 5 {
            0 => case.edges.retain(|e| e.0 == e.1), // self-loops only (if any)
            1 => {
                // parallel-only: keep a single pair, repeated
                if let Some(first) = case.edges.first().cloned() {
                    case.edges = vec![first; if specs.multi { 3 } else { 1 }];
                }
            }
            2 | 3 if case.wclass.weighted() && !case.edges.is_empty() => {
                // finite weights at the ends of the f64 range: sums of two of them overflow to
                // infinity, products underflow to zero
                let maxw = case.edges.iter().map(|e| e.2.abs()).fold(0.0, f64::max).max(1e-300);
                let scale = if r % 5 == 2 { 1.2e308 / maxw } else { 1e-310 / maxw };
                for e in case.edges.iter_mut() {
                    e.2 *= scale;
                }
                if specs.multi {
                    // two parallel edges whose weights cannot be added
                    let first = case.edges[0];
                    case.edges.push(first);
                }
                ctx::count(if r % 5 == 2 { "reach:weights-near-f64-max" } else { "reach:subnormal-weights" });
            }
            _ => {}
        }
        ctx::case_desc(case.json());
        let g = case.build();
        let (d, calls, dump) = call_everything(&case, &g, &mut rng, want_dump);
        ctx::eval(calls);
        digests.insert(format!("{}", this), json!(format!("{:016x}", d)));
        if want_dump {
            ctx::note("dump", json!(dump));
        }
        ctx::nontrivial(case.hash());
        ctx::count(&format!("shapes:{}", fam));
    }
    // ---- threshold shapes: graphs barely above the 20-node parallel threshold run inside a pool
    // with more worker threads than nodes; chains of 62..66 diamonds (2^62..2^66 shortest paths)
    let base2 = 20_000_000u64;
    let big_pool = rayon::ThreadPoolBuilder::new().num_threads(48).build().expect("pool");
    let mut specials: Vec<(GCase, bool)> = vec![];
    {
        let mut rng = Rng::new(mix(a.seed, 0x7420));
        for n in [21usize, 22, 25, 31, 33, 40] {
            for specs in [Specs::kind(true, false, true), Specs::kind(false, true, true)] {
                let w = *rng.pick(&[WClass::Unweighted, WClass::Exact]);
                specials.push((gen_case(specs, "gnp_sparse", n, w, &GenOpts { self_loops: true, parallel: true, shuffle_edges: true }, &mut rng), true));
            }
        }
        for k in [62usize, 63, 64, 66] {
            for w in [WClass::Unweighted, WClass::Exact] {
                specials.push((diamond_chain(Specs::kind(k % 2 == 0, false, false), k, w, &mut rng), false));
            }
        }
    }
    for (i, (case, all)) in specials.into_iter().enumerate() {
        let this = base2 + i as u64;
        if !ctx::mine(this) {
            continue;
        }
        ctx::case_desc(json!({"family": case.family, "n": case.n(), "kind": case.specs.kind_label(), "wclass": format!("{:?}", case.wclass)}));
        let g = case.build();
        let names: Vec<String> = g.get_all_nodes().iter().map(|n| n.name.clone()).collect();
        let mut r = Rec { kind: kind_class(&g), buf: String::new(), calls: 0, graph: json!({"family": case.family, "n": case.n(), "kind": case.specs.kind_label()}), dump: vec![], want_dump: false };
        for w in [false, true] {
            for b in [false, true] {
                r.call("betweenness_centrality", format!("{},{} (48-thread pool)", w, b), || big_pool.install(|| res(betweenness::betweenness_centrality(&g, w, b), |m| fmap(&m))));
                r.call("closeness_centrality", format!("{},{} (48-thread pool)", w, b), || big_pool.install(|| res(closeness::closeness_centrality(&g, w, b), |m| fmap(&m))));
            }
            if all {
                r.call("all_pairs", format!("{} (48-thread pool)", w), || big_pool.install(|| res(dijkstra::all_pairs(&g, w, None, None, false, true), |m| format!("{}", m.len()))));
                r.call("multi_source", format!("{} (48-thread pool)", w), || big_pool.install(|| res(dijkstra::multi_source(&g, w, names.clone(), names.first().cloned(), None, true, true), |m| format!("{}", m.len()))));
                r.call("get_all_shortest_paths_involving", format!("{} (48-thread pool)", w), || big_pool.install(|| format!("{}", dijkstra::get_all_shortest_paths_involving(&g, names[0].clone(), w).len())));
                r.call("clustering", format!("{},first (48-thread pool)", w), || big_pool.install(|| res(cluster::clustering(&g, w, Some(&names[..1])), |m| fmap(&m))));
                // names that are not in the graph, on the parallel branch
                let absent = "zz-absent".to_string();
                let mut with_absent = names.clone();
                with_absent.insert(names.len() / 2, absent.clone());
                r.call("multi_source", format!("{},absent-source among all (48-thread pool)", w), || big_pool.install(|| res(dijkstra::multi_source(&g, w, with_absent.clone(), None, None, false, false), |m| format!("{}", m.len()))));
                r.call("multi_source", format!("{},absent-target (48-thread pool)", w), || big_pool.install(|| res(dijkstra::multi_source(&g, w, names.clone(), Some(absent.clone()), None, false, false), |m| format!("{}", m.len()))));
                r.call("all_pairs", format!("{},absent-target (48-thread pool)", w), || big_pool.install(|| res(dijkstra::all_pairs(&g, w, Some(absent.clone()), None, false, false), |m| format!("{}", m.len()))));
            }
        }
        ctx::eval(r.calls);
        ctx::nontrivial(case.hash());
        ctx::count(if all { "shapes:more-worker-threads-than-nodes" } else { "shapes:diamond-chain-2^62-paths" });
    }
    ctx::note("digests", json!(digests));
    ctx::note("covered_functions", json!(COVERED));
}

//! Seeded generators for algorithm inputs: graph families x kinds x weight classes.

use crate::model::Specs;
use crate::rng::{fnv, Rng};
use graphrs::{Edge, Graph, Node};
use serde_json::{json, Value};
use std::sync::Arc;

pub type GS = Graph<String, ()>;

#[derive(Clone, Copy, PartialEq, Eq, Debug)]
pub enum WClass {
    Unweighted,
    /// k/4, k in 1..=12: sums are exact, ties are real ties
    Exact,
    /// k/4, k in 1..=80: exact, fewer ties
    ExactWide,
    /// random doubles in [0.1, 10): ties have probability ~0
    Generic,
    /// k/4, k in 0..=6: contains zero weights
    ZeroContaining,
    /// decimal fractions whose float sums are one or two ulps apart (0.1 + 0.2 vs 0.3)
    UlpsDecimal,
    /// the same at a tiny common magnitude (1e-20)
    UlpsTiny,
}

impl WClass {
    pub fn draw(&self, rng: &mut Rng) -> f64 {
        match self {
            WClass::Unweighted => f64::NAN,
            WClass::Exact => rng.range(1, 12) as f64 / 4.0,
            WClass::ExactWide => rng.range(1, 80) as f64 / 4.0,
            WClass::Generic => 0.1 + rng.f64() * 9.9,
            WClass::ZeroContaining => rng.range(0, 6) as f64 / 4.0,
            WClass::UlpsDecimal => *rng.pick(&[0.1, 0.2, 0.3, 0.1 + 0.2, 0.4, 0.05, 0.25, 0.7, 0.6, 0.15, 0.35]),
            WClass::UlpsTiny => *rng.pick(&[1e-20, 2e-20, 3e-20, 1e-20 + 2e-20, 4e-20, 0.5e-20, 2.5e-20, 7e-20]),
        }
    }
    pub fn is_exact(&self) -> bool {
        matches!(self, WClass::Exact | WClass::ExactWide | WClass::ZeroContaining)
    }
    pub fn weighted(&self) -> bool {
        !matches!(self, WClass::Unweighted)
    }
    pub fn is_ulps(&self) -> bool {
        matches!(self, WClass::UlpsDecimal | WClass::UlpsTiny)
    }
}

#[derive(Clone, Debug)]
pub struct GCase {
    pub specs: Specs,
    pub names: Vec<String>,
    /// (u index, v index, weight) in insertion order
    pub edges: Vec<(usize, usize, f64)>,
    pub family: &'static str,
    pub wclass: WClass,
}

impl GCase {
    pub fn n(&self) -> usize {
        self.names.len()
    }
    pub fn json(&self) -> Value {
        json!({
            "duplicate_policy_used_by_build": format!("{:?}", self.effective_specs().dedupe),
            "late_duplicate_variant": self.edges.len() % 4,
            "kind": self.specs.kind_label(),
            "family": self.family,
            "wclass": format!("{:?}", self.wclass),
            "names": self.names,
            "edges": self.edges.iter().map(|(u, v, w)| json!([u, v, crate::model::wjson(*w)])).collect::<Vec<_>>(),
        })
    }
    pub fn hash(&self) -> u64 {
        let mut s = format!("{}|{:?}|", self.specs.kind_label(), self.names);
        for (u, v, w) in &self.edges {
            s.push_str(&format!("{},{},{:x};", u, v, w.to_bits()));
        }
        fnv(s.as_bytes())
    }
    /// Builds the real graph with permissive policies (create missing, keep-last, drop loops).
    /// Single-edge cases alternate between the two duplicate policies that never reject.
    pub fn effective_specs(&self) -> Specs {
        let mut s = self.specs;
        if !s.multi {
            match (self.names.len() + self.edges.len()) % 3 {
                0 => s.dedupe = crate::model::Dedupe::KeepFirst,
                1 => {
                    // rejecting duplicates is only usable when the case has none of its own
                    let mut seen = std::collections::HashSet::new();
                    let distinct = self.edges.iter().all(|(u, v, _)| seen.insert(if !s.directed && u > v { (*v, *u) } else { (*u, *v) }));
                    if distinct {
                        s.dedupe = crate::model::Dedupe::Error;
                    }
                }
                _ => {}
            }
        }
        s
    }
    /// The same graph as `build`, but without any read-only call on it: whatever the library
    /// computes lazily on first use has not been computed yet.
    pub fn build_cold(&self) -> GS {
        self.build_opts(false)
    }
    pub fn build(&self) -> GS {
        self.build_opts(true)
    }
    fn build_opts(&self, warm: bool) -> GS {
        let specs = self.effective_specs();
        let mut g: GS = Graph::new(specs.to_real());
        // in every other case the nodes are not announced: an edge (possibly a self-loop) is the
        // first mention of its endpoints and creates them; nodes without edges follow at the end
        let announce = (self.names.len() + 2 * self.edges.len()) % 4 < 2;
        if announce {
            for n in &self.names {
                g.add_node(Node::from_name(n.clone()));
            }
        } else {
            crate::ctx::count("build:nodes-created-by-their-first-edge");
        }
        let keep_first = specs.dedupe != crate::model::Dedupe::KeepLast;
        let all_real = !self.edges.is_empty() && self.edges.iter().all(|e| !e.2.is_nan());
        let dup_phase = !specs.multi && all_real;
        let small = self.names.len() <= 40;
        let variant = self.edges.len() % 4;
        let mk = |u: usize, v: usize, w: f64| -> Arc<Edge<String, ()>> { Arc::new(Edge { u: self.names[u].clone(), v: self.names[v].clone(), attributes: None, weight: w }) };
        if dup_phase && !keep_first && variant == 3 {
            // the first pair is first stored without a weight; the weighted edge replaces it below
            let (u, v, _) = self.edges[0];
            if crate::ctx::guard("add_edge", || g.add_edge(mk(u, v, f64::NAN))).is_err() {
                crate::ctx::abandon_case("add_edge-panicked-while-building-the-input");
            }
        }
        // identical edges are handed over as clones of one Arc (as `vec![edge; k]` would)
        let mut arcs: std::collections::HashMap<(usize, usize, u64), Arc<Edge<String, ()>>> = std::collections::HashMap::new();
        let half = self.edges.len() / 2;
        for (k, (u, v, w)) in self.edges.iter().enumerate() {
            if warm && k == half && half > 0 && self.names.len() <= 40 {
                crate::ctx::count("build:queries-on-the-half-built-graph");
                // queries on the half-built graph: anything they cache must not survive the
                // mutations that follow
                quiet_warm_up(&g);
            }
            // every other edge carries attributes (Some(()) - the attribute type of these graphs is
            // the unit type, but the paths taken for "an edge with attributes" are the same)
            let e = arcs
                .entry((*u, *v, w.to_bits()))
                .or_insert_with(|| {
                    Arc::new(Edge {
                        u: self.names[*u].clone(),
                        v: self.names[*v].clone(),
                        attributes: if k % 2 == 0 { Some(()) } else { None },
                        weight: *w,
                    })
                })
                .clone();
            match crate::ctx::guard("add_edge", || g.add_edge(e)) {
                Ok(r) => r.expect("permissive specs never reject an edge"),
                Err(_) => crate::ctx::abandon_case("add_edge-panicked-while-building-the-input"),
            }
        }
        if !announce {
            for n in &self.names {
                if !g.has_node(n) {
                    g.add_node(Node::from_name(n.clone()));
                }
            }
        }
        // a node re-add (an attribute update) after the edges exist must change nothing: bare,
        // and with attributes
        for (i, n) in self.names.iter().enumerate() {
            if i % 3 == 1 {
                if i % 2 == 0 {
                    g.add_node(Node::from_name_and_attributes(n.clone(), ()));
                } else {
                    g.add_node(Node::from_name(n.clone()));
                }
            }
        }
        // on single-edge graphs the finished graph is queried and then a duplicate of its first
        // edge arrives: replaced under keep-last, discarded under keep-first; node and edge counts
        // stay the same either way, and nothing computed before may leak into later answers
        if dup_phase {
            let (u, v, w) = self.edges[0];
            let maxw = self.edges.iter().map(|e| e.2.abs()).fold(0.0, f64::max);
            let minw = self.edges.iter().map(|e| e.2).fold(f64::INFINITY, f64::min);
            // the duplicate's weight stays within the magnitude of the case's own weights: a
            // weight that absorbs the others in floating point would act as a zero-weight edge
            let unit = if maxw >= 0.25 && maxw <= 1e6 { 1.0 } else if maxw > 0.0 { maxw } else { 1.0 };
            let dup = match variant {
                0 => Some(2.0 * maxw + unit),
                1 => Some(if minw > 0.0 { minw * 0.5 } else { w * 1.5 + 0.25 * unit }),
                2 => Some(if keep_first { f64::NAN } else { w * 1.5 + 0.25 * unit }),
                _ => if keep_first { Some(f64::NAN) } else { None },
            };
            if let Some(dw) = dup {
                if dw.is_nan() || dw.is_finite() {
                    crate::ctx::count(match specs.dedupe {
                        crate::model::Dedupe::KeepLast => "build:late-duplicate:replaced",
                        crate::model::Dedupe::KeepFirst => "build:late-duplicate:discarded",
                        crate::model::Dedupe::Error => "build:late-duplicate:rejected",
                    });
                    if small && warm {
                        quiet_warm_up(&g);
                    }
                    match crate::ctx::guard("add_edge", || g.add_edge(mk(u, v, dw))) {
                        Ok(r) => assert!(r.is_ok() || specs.dedupe == crate::model::Dedupe::Error, "only the rejecting policy may refuse the duplicate"),
                        Err(_) => crate::ctx::abandon_case("add_edge-panicked-while-building-the-input"),
                    }
                }
            }
        }
        g
    }
    pub fn has_edges(&self) -> bool {
        !self.edges.is_empty()
    }
}

/// Names whose sort order differs from insertion order.
pub fn scrambled_names(n: usize, rng: &mut Rng) -> Vec<String> {
    let letters = ["q", "b", "z", "a", "k", "é", "M", "x", "c", "ß"];
    let mut v: Vec<String> = (0..n)
        .map(|i| format!("{}{}", letters[(i * 7 + 3) % letters.len()], i))
        .collect();
    rng.shuffle(&mut v);
    v
}

pub const FAMILIES: &[&str] = &[
    "gnp_sparse",
    "gnp_mid",
    "gnp_dense",
    "path",
    "cycle",
    "star",
    "complete",
    "grid",
    "nested_scc",
    "components",
    "bipartite",
    "barbell",
    "tree",
    "ladder",
];

/// Undirected skeleton of a family on n nodes as a list of pairs (u < v not required).
fn skeleton(family: &str, n: usize, rng: &mut Rng) -> Vec<(usize, usize)> {
    let mut e = vec![];
    if n == 0 {
        return e;
    }
    match family {
        "gnp_sparse" | "gnp_mid" | "gnp_dense" => {
            let p = match family {
                "gnp_sparse" => 1.3 / (n.max(2) as f64),
                "gnp_mid" => 0.25,
                _ => 0.6,
            };
            for u in 0..n {
                for v in (u + 1)..n {
                    if rng.f64() < p {
                        e.push((u, v));
                    }
                }
            }
        }
        "path" => {
            for u in 1..n {
                e.push((u - 1, u));
            }
        }
        "cycle" => {
            for u in 1..n {
                e.push((u - 1, u));
            }
            if n > 2 {
                e.push((n - 1, 0));
            }
        }
        "star" => {
            for u in 1..n {
                e.push((0, u));
            }
        }
        "complete" => {
            for u in 0..n {
                for v in (u + 1)..n {
                    e.push((u, v));
                }
            }
        }
        "grid" => {
            let w = ((n as f64).sqrt().ceil() as usize).max(1);
            for u in 0..n {
                if (u + 1) % w != 0 && u + 1 < n {
                    e.push((u, u + 1));
                }
                if u + w < n {
                    e.push((u, u + w));
                }
            }
        }
        "nested_scc" => {
            // small cycles of length 3..5 chained by bridges, closed into a big cycle sometimes
            let mut start = 0;
            let mut heads = vec![];
            while start < n {
                let len = rng.range(2, 5).min(n - start);
                for i in 0..len {
                    if len > 1 && (i + 1 < len || len > 2) {
                        e.push((start + i, start + (i + 1) % len));
                    }
                }
                heads.push(start);
                start += len;
            }
            for w in heads.windows(2) {
                e.push((w[0], w[1]));
            }
            if heads.len() > 2 && rng.coin() {
                e.push((*heads.last().unwrap(), heads[0]));
            }
        }
        "components" => {
            // many small components and isolated nodes
            let mut start = 0;
            while start < n {
                let len = rng.range(1, 4).min(n - start);
                for i in 1..len {
                    e.push((start + rng.below(i), start + i));
                }
                if len > 2 && rng.coin() {
                    e.push((start, start + len - 1));
                }
                start += len;
            }
        }
        "bipartite" => {
            let a = n / 2;
            for u in 0..a {
                for v in a..n {
                    e.push((u, v));
                }
            }
        }
        "barbell" => {
            let a = n / 2;
            for u in 0..a {
                for v in (u + 1)..a {
                    e.push((u, v));
                }
            }
            for u in a..n {
                for v in (u + 1)..n {
                    e.push((u, v));
                }
            }
            if a > 0 && a < n {
                e.push((a - 1, a));
            }
        }
        "tree" => {
            for u in 1..n {
                e.push((rng.below(u), u));
            }
        }
        "ladder" => {
            let h = n / 2;
            for i in 0..h {
                e.push((i, i + h));
                if i + 1 < h {
                    e.push((i, i + 1));
                    e.push((i + h, i + 1 + h));
                }
            }
        }
        _ => panic!("unknown family {}", family),
    }
    e.dedup();
    e
}

pub struct GenOpts {
    pub self_loops: bool,
    pub parallel: bool,
    pub shuffle_edges: bool,
}

/// One graph case. Self-loops are only added when the kind allows them, parallel edges only
/// on multi-edge kinds.
pub fn gen_case(
    specs: Specs,
    family: &'static str,
    n: usize,
    wclass: WClass,
    opts: &GenOpts,
    rng: &mut Rng,
) -> GCase {
    let names = scrambled_names(n, rng);
    let skel = skeleton(family, n, rng);
    let mut edges: Vec<(usize, usize, f64)> = vec![];
    let mut seen = std::collections::HashSet::new();
    // sometimes every arc of a directed graph is reciprocated (with its own weight)
    let all_reciprocal = specs.directed && rng.chance(1, 7);
    for (a, b) in skel {
        if specs.directed {
            let mode = if all_reciprocal {
                2
            } else if family == "nested_scc" || family == "cycle" {
                0
            } else {
                rng.below(4)
            };
            let arcs: Vec<(usize, usize)> = match mode {
                0 => vec![(a, b)],
                1 => vec![(b, a)],
                2 => vec![(a, b), (b, a)],
                _ => {
                    if rng.coin() {
                        vec![(a, b)]
                    } else {
                        vec![(b, a)]
                    }
                }
            };
            for (u, v) in arcs {
                if seen.insert((u, v)) {
                    edges.push((u, v, wclass.draw(rng)));
                }
            }
        } else {
            let key = (a.min(b), a.max(b));
            if seen.insert(key) {
                // present undirected edges in either orientation
                let (u, v) = if rng.coin() { (a, b) } else { (b, a) };
                edges.push((u, v, wclass.draw(rng)));
            }
        }
    }
    if opts.self_loops && specs.self_loops && n > 0 {
        let k = 1 + rng.below(2.min(n));
        for _ in 0..k {
            let u = rng.below(n);
            if seen.insert((u, u)) {
                edges.push((u, u, wclass.draw(rng)));
            }
        }
    }
    if opts.parallel && specs.multi && !edges.is_empty() && rng.coin() {
        // three or more parallel edges on one pair, weights in arbitrary order
        let (u, v, _) = edges[rng.below(edges.len())];
        for _ in 0..rng.range(2, 3) {
            let (x, y) = if !specs.directed && rng.coin() { (v, u) } else { (u, v) };
            edges.push((x, y, wclass.draw(rng)));
        }
    }
    if opts.parallel && specs.multi && !edges.is_empty() {
        let k = 1 + rng.below(3);
        for _ in 0..k {
            let (u, v, _) = edges[rng.below(edges.len())];
            let (u, v) = if !specs.directed && rng.coin() { (v, u) } else { (u, v) };
            edges.push((u, v, wclass.draw(rng)));
        }
    }
    if wclass == WClass::Exact && edges.len() >= 2 && rng.chance(1, 8) {
        // weights that are not all 1 but sum to the number of edges
        let m = edges.len() as f64;
        let rest: f64 = edges[..edges.len() - 1].iter().map(|e| e.2).sum();
        let last = m - rest;
        if last >= 0.25 {
            let i = edges.len() - 1;
            edges[i].2 = last;
        }
    }
    if opts.shuffle_edges && !(opts.parallel && specs.multi && rng.chance(1, 3)) {
        // (on multigraphs the insertion order of parallel edges is sometimes kept as drawn)
        rng.shuffle(&mut edges);
    }
    GCase {
        specs,
        names,
        edges,
        family,
        wclass,
    }
}

/// A chain of k diamonds: 2^k shortest paths between its ends (3k+1 nodes).
pub fn diamond_chain(specs: Specs, k: usize, wclass: WClass, rng: &mut Rng) -> GCase {
    let n = 3 * k + 1;
    let names = scrambled_names(n, rng);
    let mut edges = vec![];
    let w = if wclass.weighted() { 1.5 } else { f64::NAN };
    for i in 0..k {
        let a = 3 * i;
        let (b, c, e) = (a + 1, a + 2, a + 3);
        edges.push((a, b, w));
        edges.push((a, c, w));
        edges.push((b, e, w));
        edges.push((c, e, w));
    }
    rng.shuffle(&mut edges);
    GCase { specs, names, edges, family: "diamond_chain", wclass }
}

/// Calls a spread of read-only functions and throws the answers away (see `GCase::build`).
/// `warm_up` with panics contained: a read-only call that panics is the business of C20, not of
/// the property whose input is being prepared; it is counted and the preparation goes on.
pub fn quiet_warm_up<A: Clone + Send + Sync>(g: &Graph<String, A>) {
    if crate::ctx::guard("warm_up", || warm_up(g)).is_err() {
        crate::ctx::count("preparation:read-only-bundle-panicked-or-overran");
    }
}

pub fn warm_up<A: Clone + Send + Sync>(g: &Graph<String, A>) {
    use graphrs::algorithms::centrality::{betweenness, closeness, degree, eigenvector};
    use graphrs::algorithms::shortest_path::dijkstra;
    use graphrs::algorithms::{cluster, community::louvain, community::partitions, components};
    let w = g.edges_have_weight() && !g.get_all_edges().is_empty();
    for weighted in [false, w] {
        let _ = closeness::closeness_centrality(g, weighted, true);
        let _ = betweenness::betweenness_centrality(g, weighted, true);
        let _ = dijkstra::all_pairs(g, weighted, None, None, true, true);
        let _ = cluster::clustering(g, weighted, None);
        let _ = eigenvector::eigenvector_centrality(g, weighted, Some(20), Some(1e-3));
    }
    let _ = degree::degree_centrality(g);
    let _ = g.get_density();
    let _ = g.get_sparse_adjacency_matrix();
    let _ = g.reverse();
    let _ = g.to_single_edges();
    let _ = g.get_subgraph(&g.get_all_node_names().into_iter().cloned().collect::<Vec<_>>());
    let _ = components::connected_components(g);
    let _ = components::strongly_connected_components(g);
    let _ = components::weakly_connected_components(g);
    let _ = cluster::transitivity(g);
    let _ = cluster::triangles(g, None);
    let some: Vec<String> = g.get_all_node_names().into_iter().take(4).cloned().collect();
    let _ = cluster::triangles(g, Some(&some));
    let _ = cluster::generalized_degree(g, Some(&some));
    let _ = cluster::clustering(g, w, Some(&some));
    let _ = cluster::average_clustering(g, w, Some(&some), true);
    let _ = cluster::square_clustering(g, Some(&some));
    let everyone: Vec<std::collections::HashSet<String>> = vec![g.get_all_node_names().into_iter().cloned().collect()];
    let _ = partitions::modularity(g, &everyone, w, None);
    let _ = partitions::modularity(g, &everyone, false, Some(1.0));
    let _ = g.edges_have_weight();
    if let Some(first) = some.first() {
        // complete path lists only where their number cannot explode (a 40-node graph with
        // zero-weight or equal-weight edges can have billions of equally short paths)
        let few_paths = g.number_of_nodes() <= 12 && !(w && g.get_all_edges().iter().any(|e| e.weight == 0.0));
        let _ = dijkstra::single_source(g, w, first.clone(), None, Some(1.0), !few_paths, true);
        let _ = dijkstra::multi_source(g, w, some.clone(), None, None, !few_paths, true);
        if few_paths {
            let _ = dijkstra::get_all_shortest_paths_involving(g, first.clone(), w);
        }
    }
    if !g.get_all_edges().is_empty() {
        // the caller's own step budget (and tick count) is put back afterwards
        let prev = crate::ctx::current_budget("louvain_sweep");
        let ticks_before = graphrs::verif_hooks::take_ticks("louvain_sweep");
        crate::ctx::set_budget("louvain_sweep", Some(2000));
        let r = std::panic::catch_unwind(std::panic::AssertUnwindSafe(|| louvain::louvain_communities(g, w, None, None, Some(1))));
        graphrs::verif_hooks::take_ticks("louvain_sweep");
        crate::ctx::set_budget("louvain_sweep", prev);
        let _ = ticks_before;
        if let Ok(Ok(c)) = r {
            let _ = partitions::modularity(g, &c, w, None);
        }
    }
    let _ = g.number_of_edges();
    let _ = g.size(true);
    for n in g.get_all_node_names().into_iter().take(3) {
        let _ = g.get_node_degree(n.clone());
        let _ = g.get_edges_for_node(n.clone());
        let _ = g.breadth_first_search(n);
    }
}

pub fn kinds8() -> Vec<Specs> {
    let mut v = vec![];
    for d in [true, false] {
        for m in [false, true] {
            for l in [false, true] {
                v.push(Specs::kind(d, m, l));
            }
        }
    }
    v
}

/// Shapes sitting on size / count / magnitude boundaries: node counts around the parallel
/// threshold (20/21) and powers of two, hubs with 63..129 neighbours, 31..34 parallel edges on one
/// pair, weights of extreme magnitude, a weight equal to the current maximum.
pub fn boundary_case(rng: &mut Rng, nmin: usize, nmax: usize, kinds: &[Specs], wclasses: &[WClass]) -> GCase {
    let specs = *rng.pick(kinds);
    let wclass = *rng.pick(wclasses);
    let mut variant = rng.below(if nmax >= 80 { 6 } else { 5 });
    if nmax < 22 && variant < 2 {
        variant = 2 + rng.below(3);
    }
    let mut case = match variant {
        0 => {
            // node counts around thresholds
            let cands: Vec<usize> = [19usize, 20, 21, 22, 23, 31, 32, 33, 63, 64, 65, 127, 128, 129].iter().copied().filter(|n| *n >= nmin && *n <= nmax).collect();
            let n = if cands.is_empty() { nmax } else { *rng.pick(&cands) };
            let fam: &'static str = *rng.pick(&["gnp_sparse", "cycle", "tree", "components", "nested_scc", "path"]);
            let mut c = gen_case(specs, fam, n, wclass, &GenOpts { self_loops: rng.coin(), parallel: rng.coin(), shuffle_edges: true }, rng);
            c.family = "boundary-node-count";
            c
        }
        1 => {
            // a hub with a neighbour count around 64 / 128
            let deg = *rng.pick(&[63usize, 64, 65, 127, 128, 129]);
            let deg = deg.min(nmax.saturating_sub(1)).max(1);
            let n = deg + 1 + rng.range(0, 5).min(nmax - deg - 1);
            let names = scrambled_names(n, rng);
            let hub = rng.below(n);
            let fan_in = rng.chance(1, 3); // every arc points at the hub
            let mut edges = vec![];
            let mut k = 0;
            for v in 0..n {
                if v != hub && k < deg {
                    if specs.directed && (fan_in || rng.coin()) {
                        edges.push((v, hub, wclass.draw(rng)));
                    } else {
                        edges.push((hub, v, wclass.draw(rng)));
                    }
                    k += 1;
                }
            }
            // the nodes beyond the fan hang off random fan members (second BFS level)
            let others: Vec<usize> = (0..n).filter(|v| *v != hub && !edges.iter().any(|e| e.0 == *v || e.1 == *v)).collect();
            let members: Vec<usize> = edges.iter().map(|e| if e.0 == hub { e.1 } else { e.0 }).collect();
            for o in others {
                for _ in 0..rng.range(1, 2) {
                    let m = members[rng.below(members.len())];
                    if rng.coin() {
                        edges.push((o, m, wclass.draw(rng)));
                    } else {
                        edges.push((m, o, wclass.draw(rng)));
                    }
                }
            }
            for _ in 0..rng.below(6) {
                let (a, b) = (rng.below(n), rng.below(n));
                if a != b && !edges.iter().any(|e| (e.0 == a && e.1 == b) || (e.0 == b && e.1 == a)) {
                    edges.push((a, b, wclass.draw(rng)));
                }
            }
            rng.shuffle(&mut edges);
            GCase { specs, names, edges, family: "boundary-hub", wclass }
        }
        2 => {
            // many parallel edges on one pair (multi kinds), otherwise many re-additions of one pair
            let n = rng.range(2.max(nmin), 6.max(nmin).min(nmax.max(2)));
            let mut c = gen_case(specs, "gnp_mid", n, wclass, &GenOpts { self_loops: rng.coin(), parallel: false, shuffle_edges: true }, rng);
            let (u, v) = (0, n - 1);
            let cnt = rng.range(31, 34);
            for _ in 0..cnt {
                let (a, b) = if !specs.directed && rng.coin() { (v, u) } else { (u, v) };
                c.edges.push((a, b, wclass.draw(rng)));
            }
            c.family = "boundary-many-parallel";
            c
        }
        3 => {
            // extreme magnitudes (only meaningful for weighted classes)
            let n = rng.range(2.max(nmin), 8.max(nmin).min(nmax.max(2)));
            let fam: &'static str = *rng.pick(&["gnp_mid", "cycle", "complete", "path"]);
            let mut c = gen_case(specs, fam, n, wclass, &GenOpts { self_loops: rng.coin(), parallel: rng.coin(), shuffle_edges: true }, rng);
            if wclass.weighted() {
                // random doubles (real ties have probability 0) of an extreme common magnitude;
                // squares and products of three stay finite
                let scale = *rng.pick(&[1e-140, 1e-60, 1e60, 1e140]);
                for e in c.edges.iter_mut() {
                    e.2 = (0.1 + rng.f64() * 9.9) * scale;
                }
                c.wclass = WClass::Generic;
            }
            c.family = "boundary-extreme-weights";
            c
        }
        5 => {
            // improvement cascade: a chain of hubs each of which strictly improves every leaf
            let k = rng.range(4, 8);
            let leaves = (nmax - k).min(rng.range(66, 130));
            let n = k + leaves;
            let names = scrambled_names(n, rng);
            let mut edges = vec![];
            let weighted = wclass.weighted();
            for h in 1..k {
                edges.push((h - 1, h, if weighted { 1.0 } else { f64::NAN }));
            }
            for h in 0..k {
                for l in 0..leaves {
                    edges.push((h, k + l, if weighted { 100.0 - 4.0 * h as f64 + (l % 7) as f64 } else { f64::NAN }));
                }
            }
            rng.shuffle(&mut edges);
            GCase { specs: Specs::kind(specs.directed, false, false), names, edges, family: "boundary-improvement-cascade", wclass: if weighted { WClass::Exact } else { WClass::Unweighted } }
        }
        _ => {
            // several edges carrying exactly the maximum weight, and equal sums by different routes
            let n = rng.range(3.max(nmin), 9.max(nmin).min(nmax.max(3)));
            let fam: &'static str = *rng.pick(&["complete", "grid", "ladder", "cycle", "bipartite"]);
            let mut c = gen_case(specs, fam, n, wclass, &GenOpts { self_loops: false, parallel: rng.coin(), shuffle_edges: true }, rng);
            if wclass.weighted() {
                let vals = [1.0, 2.0];
                for e in c.edges.iter_mut() {
                    e.2 = *rng.pick(&vals);
                }
            }
            c.family = "boundary-equal-weights";
            c
        }
    };
    if case.names.len() < nmin || case.names.len() > nmax {
        case = gen_case(specs, "gnp_mid", nmin.max(1).min(nmax), wclass, &GenOpts { self_loops: false, parallel: false, shuffle_edges: true }, rng);
    }
    case
}

/// Random case with everything drawn from the rng (one case in ten sits on a boundary).
pub fn random_case(rng: &mut Rng, nmin: usize, nmax: usize, kinds: &[Specs], wclasses: &[WClass]) -> GCase {
    if nmax >= 2 && rng.chance(1, 10) {
        return boundary_case(rng, nmin, nmax, kinds, wclasses);
    }
    let specs = *rng.pick(kinds);
    let family = *rng.pick(FAMILIES);
    let n = rng.range(nmin, nmax);
    let wclass = *rng.pick(wclasses);
    let opts = GenOpts {
        self_loops: rng.chance(1, 3),
        parallel: rng.chance(1, 2),
        shuffle_edges: true,
    };
    gen_case(specs, family, n, wclass, &opts, rng)
}

//! Seeded generators for algorithm inputs: graph families x kinds x weight classes.

use crate::model::Specs;
use crate::rng::{fnv, Rng};
use graphrs::{Edge, Graph, Node};
use serde_json::{json, Value};
use std::sync::Arc;

pub type GS = Graph<String, ()>;

#[derive(Clone, Copy, PartialEq, Eq, Debug)]
pub enum WClass {
    Unweighted,
    /// k/4, k in 1..=12: sums are exact, ties are real ties
    Exact,
    /// k/4, k in 1..=80: exact, fewer ties
    ExactWide,
    /// random doubles in [0.1, 10): ties have probability ~0
    Generic,
    /// k/4, k in 0..=6: contains zero weights
    ZeroContaining,
}

impl WClass {
    pub fn draw(&self, rng: &mut Rng) -> f64 {
        match self {
            WClass::Unweighted => f64::NAN,
            WClass::Exact => rng.range(1, 12) as f64 / 4.0,
            WClass::ExactWide => rng.range(1, 80) as f64 / 4.0,
            WClass::Generic => 0.1 + rng.f64() * 9.9,
            WClass::ZeroContaining => rng.range(0, 6) as f64 / 4.0,
        }
    }
    pub fn is_exact(&self) -> bool {
        matches!(self, WClass::Exact | WClass::ExactWide | WClass::ZeroContaining)
    }
    pub fn weighted(&self) -> bool {
        !matches!(self, WClass::Unweighted)
    }
}

#[derive(Clone, Debug)]
pub struct GCase {
    pub specs: Specs,
    pub names: Vec<String>,
    /// (u index, v index, weight) in insertion order
    pub edges: Vec<(usize, usize, f64)>,
    pub family: &'static str,
    pub wclass: WClass,
}

impl GCase {
    pub fn n(&self) -> usize {
        self.names.len()
    }
    pub fn json(&self) -> Value {
        json!({
            "kind": self.specs.kind_label(),
            "family": self.family,
            "wclass": format!("{:?}", self.wclass),
            "names": self.names,
            "edges": self.edges.iter().map(|(u, v, w)| json!([u, v, crate::model::wjson(*w)])).collect::<Vec<_>>(),
        })
    }
    pub fn hash(&self) -> u64 {
        let mut s = format!("{}|{:?}|", self.specs.kind_label(), self.names);
        for (u, v, w) in &self.edges {
            s.push_str(&format!("{},{},{:x};", u, v, w.to_bits()));
        }
        fnv(s.as_bytes())
    }
    /// Builds the real graph with permissive policies (create missing, keep-last, drop loops).
    pub fn build(&self) -> GS {
        let mut g: GS = Graph::new(self.specs.to_real());
        for n in &self.names {
            g.add_node(Node::from_name(n.clone()));
        }
        for (u, v, w) in &self.edges {
            let e: Arc<Edge<String, ()>> = Arc::new(Edge {
                u: self.names[*u].clone(),
                v: self.names[*v].clone(),
                attributes: None,
                weight: *w,
            });
            g.add_edge(e).expect("permissive specs never reject an edge");
        }
        g
    }
    pub fn has_edges(&self) -> bool {
        !self.edges.is_empty()
    }
}

/// Names whose sort order differs from insertion order.
pub fn scrambled_names(n: usize, rng: &mut Rng) -> Vec<String> {
    let letters = ["q", "b", "z", "a", "k", "é", "M", "x", "c", "ß"];
    let mut v: Vec<String> = (0..n)
        .map(|i| format!("{}{}", letters[(i * 7 + 3) % letters.len()], i))
        .collect();
    rng.shuffle(&mut v);
    v
}

pub const FAMILIES: &[&str] = &[
    "gnp_sparse",
    "gnp_mid",
    "gnp_dense",
    "path",
    "cycle",
    "star",
    "complete",
    "grid",
    "nested_scc",
    "components",
    "bipartite",
    "barbell",
    "tree",
    "ladder",
];

/// Undirected skeleton of a family on n nodes as a list of pairs (u < v not required).
fn skeleton(family: &str, n: usize, rng: &mut Rng) -> Vec<(usize, usize)> {
    let mut e = vec![];
    if n == 0 {
        return e;
    }
    match family {
        "gnp_sparse" | "gnp_mid" | "gnp_dense" => {
            let p = match family {
                "gnp_sparse" => 1.3 / (n.max(2) as f64),
                "gnp_mid" => 0.25,
                _ => 0.6,
            };
            for u in 0..n {
                for v in (u + 1)..n {
                    if rng.f64() < p {
                        e.push((u, v));
                    }
                }
            }
        }
        "path" => {
            for u in 1..n {
                e.push((u - 1, u));
            }
        }
        "cycle" => {
            for u in 1..n {
                e.push((u - 1, u));
            }
            if n > 2 {
                e.push((n - 1, 0));
            }
        }
        "star" => {
            for u in 1..n {
                e.push((0, u));
            }
        }
        "complete" => {
            for u in 0..n {
                for v in (u + 1)..n {
                    e.push((u, v));
                }
            }
        }
        "grid" => {
            let w = ((n as f64).sqrt().ceil() as usize).max(1);
            for u in 0..n {
                if (u + 1) % w != 0 && u + 1 < n {
                    e.push((u, u + 1));
                }
                if u + w < n {
                    e.push((u, u + w));
                }
            }
        }
        "nested_scc" => {
            // small cycles of length 3..5 chained by bridges, closed into a big cycle sometimes
            let mut start = 0;
            let mut heads = vec![];
            while start < n {
                let len = rng.range(2, 5).min(n - start);
                for i in 0..len {
                    if len > 1 && (i + 1 < len || len > 2) {
                        e.push((start + i, start + (i + 1) % len));
                    }
                }
                heads.push(start);
                start += len;
            }
            for w in heads.windows(2) {
                e.push((w[0], w[1]));
            }
            if heads.len() > 2 && rng.coin() {
                e.push((*heads.last().unwrap(), heads[0]));
            }
        }
        "components" => {
            // many small components and isolated nodes
            let mut start = 0;
            while start < n {
                let len = rng.range(1, 4).min(n - start);
                for i in 1..len {
                    e.push((start + rng.below(i), start + i));
                }
                if len > 2 && rng.coin() {
                    e.push((start, start + len - 1));
                }
                start += len;
            }
        }
        "bipartite" => {
            let a = n / 2;
            for u in 0..a {
                for v in a..n {
                    e.push((u, v));
                }
            }
        }
        "barbell" => {
            let a = n / 2;
            for u in 0..a {
                for v in (u + 1)..a {
                    e.push((u, v));
                }
            }
            for u in a..n {
                for v in (u + 1)..n {
                    e.push((u, v));
                }
            }
            if a > 0 && a < n {
                e.push((a - 1, a));
            }
        }
        "tree" => {
            for u in 1..n {
                e.push((rng.below(u), u));
            }
        }
        "ladder" => {
            let h = n / 2;
            for i in 0..h {
                e.push((i, i + h));
                if i + 1 < h {
                    e.push((i, i + 1));
                    e.push((i + h, i + 1 + h));
                }
            }
        }
        _ => panic!("unknown family {}", family),
    }
    e.dedup();
    e
}

pub struct GenOpts {
    pub self_loops: bool,
    pub parallel: bool,
    pub shuffle_edges: bool,
}

/// One graph case. Self-loops are only added when the kind allows them, parallel edges only
/// on multi-edge kinds.
pub fn gen_case(
    specs: Specs,
    family: &'static str,
    n: usize,
    wclass: WClass,
    opts: &GenOpts,
    rng: &mut Rng,
) -> GCase {
    let names = scrambled_names(n, rng);
    let skel = skeleton(family, n, rng);
    let mut edges: Vec<(usize, usize, f64)> = vec![];
    let mut seen = std::collections::HashSet::new();
    // sometimes every arc of a directed graph is reciprocated (with its own weight)
    let all_reciprocal = specs.directed && rng.chance(1, 7);
    for (a, b) in skel {
        if specs.directed {
            let mode = if all_reciprocal {
                2
            } else if family == "nested_scc" || family == "cycle" {
                0
            } else {
                rng.below(4)
            };
            let arcs: Vec<(usize, usize)> = match mode {
                0 => vec![(a, b)],
                1 => vec![(b, a)],
                2 => vec![(a, b), (b, a)],
                _ => {
                    if rng.coin() {
                        vec![(a, b)]
                    } else {
                        vec![(b, a)]
                    }
                }
            };
            for (u, v) in arcs {
                if seen.insert((u, v)) {
                    edges.push((u, v, wclass.draw(rng)));
                }
            }
        } else {
            let key = (a.min(b), a.max(b));
            if seen.insert(key) {
                // present undirected edges in either orientation
                let (u, v) = if rng.coin() { (a, b) } else { (b, a) };
                edges.push((u, v, wclass.draw(rng)));
            }
        }
    }
    if opts.self_loops && specs.self_loops && n > 0 {
        let k = 1 + rng.below(2.min(n));
        for _ in 0..k {
            let u = rng.below(n);
            if seen.insert((u, u)) {
                edges.push((u, u, wclass.draw(rng)));
            }
        }
    }
    if opts.parallel && specs.multi && !edges.is_empty() && rng.coin() {
        // three or more parallel edges on one pair, weights in arbitrary order
        let (u, v, _) = edges[rng.below(edges.len())];
        for _ in 0..rng.range(2, 3) {
            let (x, y) = if !specs.directed && rng.coin() { (v, u) } else { (u, v) };
            edges.push((x, y, wclass.draw(rng)));
        }
    }
    if opts.parallel && specs.multi && !edges.is_empty() {
        let k = 1 + rng.below(3);
        for _ in 0..k {
            let (u, v, _) = edges[rng.below(edges.len())];
            let (u, v) = if !specs.directed && rng.coin() { (v, u) } else { (u, v) };
            edges.push((u, v, wclass.draw(rng)));
        }
    }
    if wclass == WClass::Exact && edges.len() >= 2 && rng.chance(1, 8) {
        // weights that are not all 1 but sum to the number of edges
        let m = edges.len() as f64;
        let rest: f64 = edges[..edges.len() - 1].iter().map(|e| e.2).sum();
        let last = m - rest;
        if last >= 0.25 {
            let i = edges.len() - 1;
            edges[i].2 = last;
        }
    }
    if opts.shuffle_edges && !(opts.parallel && specs.multi && rng.chance(1, 3)) {
        // (on multigraphs the insertion order of parallel edges is sometimes kept as drawn)
        rng.shuffle(&mut edges);
    }
    GCase {
        specs,
        names,
        edges,
        family,
        wclass,
    }
}

pub fn kinds8() -> Vec<Specs> {
    let mut v = vec![];
    for d in [true, false] {
        for m in [false, true] {
            for l in [false, true] {
                v.push(Specs::kind(d, m, l));
            }
        }
    }
    v
}

/// Random case with everything drawn from the rng.
pub fn random_case(rng: &mut Rng, nmin: usize, nmax: usize, kinds: &[Specs], wclasses: &[WClass]) -> GCase {
    let specs = *rng.pick(kinds);
    let family = *rng.pick(FAMILIES);
    let n = rng.range(nmin, nmax);
    let wclass = *rng.pick(wclasses);
    let opts = GenOpts {
        self_loops: rng.chance(1, 3),
        parallel: rng.chance(1, 2),
        shuffle_edges: true,
    };
    gen_case(specs, family, n, wclass, &opts, rng)
}

//! C10 (components), C11 (clustering family), C12 (partitions / modularity),
//! C13 (Louvain), C18 (eigenvector centrality).

use crate::ctx::{self, guard, Args};
use crate::gen::*;
use crate::hist::kind_class;
use crate::model::{err_name, Specs};
use crate::oracle::{self, Dense};
use crate::props_path::approx;
use crate::rng::{fnv, mix, Rng};
use graphrs::algorithms::centrality::eigenvector;
use graphrs::algorithms::cluster;
use graphrs::algorithms::community::{louvain, partitions};
use graphrs::algorithms::components;
use graphrs::{ErrorKind, Graph};
use serde_json::{json, Value};
use std::collections::{BTreeSet, HashMap, HashSet};

fn canon_partition(parts: &[HashSet<String>]) -> BTreeSet<BTreeSet<String>> {
    parts.iter().map(|p| p.iter().cloned().collect()).collect()
}

/// checks that `parts` is a partition of the node set into non-empty sets whose classes are
/// exactly the equivalence classes of `same`
fn check_components(func: &str, parts: &[HashSet<String>], d: &Dense, same: &dyn Fn(usize, usize) -> bool) -> Option<(String, Value)> {
    let mut seen: HashMap<&String, usize> = HashMap::new();
    for (ci, p) in parts.iter().enumerate() {
        if p.is_empty() {
            return Some(("empty-component".into(), json!(null)));
        }
        for x in p {
            if !d.idx.contains_key(x) {
                return Some(("foreign-node".into(), json!(x)));
            }
            if seen.insert(x, ci).is_some() {
                return Some(("node-in-two-components".into(), json!(x)));
            }
        }
    }
    if seen.len() != d.n {
        return Some(("node-missing".into(), json!({"covered": seen.len(), "n": d.n})));
    }
    for u in 0..d.n {
        for v in 0..d.n {
            let together = seen[&d.names[u]] == seen[&d.names[v]];
            if together != same(u, v) {
                return Some((
                    if together { "unconnected-nodes-share-a-component".into() } else { "connected-nodes-split".into() },
                    json!([d.names[u], d.names[v]]),
                ));
            }
        }
    }
    let _ = func;
    None
}

pub fn run_c10(a: &Args) {
    let kinds = kinds8();
    let total: u64 = if a.thorough { 400_000 } else { 12_000 };
    for idx in 0..total {
        if !ctx::mine(idx) {
            continue;
        }
        let mut rng = Rng::new(mix(a.seed ^ 0xC10, idx));
        let case = if idx % 300 == 299 {
            // node counts at and around multiples of 64
            let n = *rng.pick(&[63usize, 64, 65, 127, 128, 129, 192]);
            ctx::count("reach:node-count-around-multiple-of-64");
            let fam: &'static str = *rng.pick(&["gnp_sparse", "components", "nested_scc", "tree", "cycle"]);
            gen_case(*rng.pick(&kinds), fam, n, WClass::Unweighted, &GenOpts { self_loops: rng.coin(), parallel: rng.coin(), shuffle_edges: true }, &mut rng)
        } else if idx % 6 == 5 {
            random_case(&mut rng, 13, if a.thorough { 60 } else { 40 }, &kinds, &[WClass::Unweighted, WClass::Exact])
        } else {
            random_case(&mut rng, 0, 12, &kinds, &[WClass::Unweighted, WClass::Exact])
        };
        ctx::case_desc(case.json());
        let mut prev: Option<Vec<BTreeSet<BTreeSet<String>>>> = None;
        // the same graph rebuilt with fresh hash states must give the same partitions
        for rebuild in 0..3 {
            // the second and third rebuilds reach the same nodes and edges through a derived copy
            let g = match rebuild {
                0 => case.build(),
                1 => case.build().set_all_edge_weights(3.0),
                _ => {
                    let b = case.build();
                    if b.specs.directed && idx % 2 == 0 {
                        b.reverse().and_then(|r| r.reverse()).unwrap_or(b)
                    } else {
                        let mut all: Vec<String> = case.names.clone();
                        all.reverse();
                        b.get_subgraph(&all)
                    }
                }
            };
            let how = ["build", "build + set_all_edge_weights", "build + reverse twice / get_subgraph(all nodes)"][rebuild];
            let d = Dense::from_graph(&g);
            let kind = kind_class(&g);
            let fail = |func: &str, class: &str, detail: Value| {
                ctx::violation(&format!("C10|{}|{}|{}", func, class, kind), &format!("{}: {}", func, class), json!({"detail": detail, "graph": case.json(), "graph_obtained_by": how}));
            };
            let reach = oracle::closure(&d, false);
            let sym = oracle::closure(&d, true);
            let mut results: Vec<BTreeSet<BTreeSet<String>>> = vec![];
            // undirected trio
            let cc = guard("connected_components", || components::connected_components(&g));
            let ncc = guard("number_of_connected_components", || components::number_of_connected_components(&g));
            ctx::eval(2);
            match cc {
                Err(c) => fail("connected_components", &c.class(), c.json()),
                Ok(Err(e)) => {
                    if !d.directed || !matches!(e.kind, ErrorKind::WrongMethod) {
                        fail("connected_components", &format!("error:{}", err_name(&e.kind)), json!(null));
                    } else {
                        ctx::count("guard:connected_components-on-directed");
                    }
                }
                Ok(Ok(parts)) => {
                    if d.directed {
                        fail("connected_components", "not-WrongMethod-on-directed", json!(null));
                    } else {
                        if let Some((class, det)) = check_components("connected_components", &parts, &d, &|u, v| sym[u][v]) {
                            fail("connected_components", &class, det);
                        }
                        match &ncc {
                            Ok(Ok(k)) if *k == parts.len() => {}
                            other => fail("number_of_connected_components", "differs-from-number-of-sets", json!({"got": format!("{:?}", other.as_ref().map(|r| r.as_ref().map_err(|e| err_name(&e.kind)))), "sets": parts.len()})),
                        }
                        let canon = canon_partition(&parts);
                        for x in 0..d.n {
                            ctx::eval(1);
                            match guard("node_connected_component", || components::node_connected_component(&g, &d.names[x])) {
                                Ok(Ok(set)) => {
                                    let s: BTreeSet<String> = set.into_iter().collect();
                                    let want: BTreeSet<String> = (0..d.n).filter(|y| sym[x][*y]).map(|y| d.names[y].clone()).collect();
                                    if s != want || !canon.contains(&s) {
                                        fail("node_connected_component", "not-the-component-containing-x", json!({"x": d.names[x], "got": s, "want": want}));
                                        break;
                                    }
                                }
                                Ok(Err(e)) => {
                                    fail("node_connected_component", &format!("error:{}", err_name(&e.kind)), json!(d.names[x]));
                                    break;
                                }
                                Err(c) => {
                                    fail("node_connected_component", &c.class(), c.json());
                                    break;
                                }
                            }
                        }
                        if parts.len() >= 3 {
                            ctx::count("reach:three-or-more-components");
                        }
                        results.push(canon);
                    }
                }
            }
            if d.directed {
                if let Ok(Ok(_)) = &ncc {
                    fail("number_of_connected_components", "not-WrongMethod-on-directed", json!(null));
                }
                if d.n > 0 {
                    if let Ok(Ok(_)) = guard("node_connected_component", || components::node_connected_component(&g, &d.names[0])) {
                        fail("node_connected_component", "not-WrongMethod-on-directed", json!(null));
                    }
                }
            }
            // directed pair
            for which in 0..2 {
                let (fname, r) = if which == 0 {
                    ("weakly_connected_components", guard("weakly_connected_components", || components::weakly_connected_components(&g)))
                } else {
                    ("strongly_connected_components", guard("strongly_connected_components", || components::strongly_connected_components(&g)))
                };
                ctx::eval(1);
                match r {
                    Err(c) => fail(fname, &c.class(), c.json()),
                    Ok(Err(e)) => {
                        if d.directed || !matches!(e.kind, ErrorKind::WrongMethod) {
                            fail(fname, &format!("error:{}", err_name(&e.kind)), json!(null));
                        } else {
                            ctx::count("guard:directed-components-on-undirected");
                        }
                    }
                    Ok(Ok(parts)) => {
                        if !d.directed {
                            fail(fname, "not-WrongMethod-on-undirected", json!(null));
                        } else {
                            let same: Box<dyn Fn(usize, usize) -> bool> = if which == 0 {
                                Box::new(|u, v| sym[u][v])
                            } else {
                                Box::new(|u, v| reach[u][v] && reach[v][u])
                            };
                            if let Some((class, det)) = check_components(fname, &parts, &d, &*same) {
                                fail(fname, &class, det);
                            }
                            if which == 1 && parts.iter().any(|p| p.len() >= 2) && parts.len() >= 2 {
                                ctx::count("reach:nontrivial-scc-structure");
                            }
                            results.push(canon_partition(&parts));
                        }
                    }
                }
            }
            // breadth_first_search from every node
            for x in 0..d.n {
                ctx::eval(1);
                match guard("breadth_first_search", || g.breadth_first_search(&d.names[x])) {
                    Err(c) => {
                        fail("breadth_first_search", &c.class(), c.json());
                        break;
                    }
                    Ok(v) => {
                        let set: BTreeSet<&String> = v.iter().collect();
                        let want: BTreeSet<&String> = (0..d.n).filter(|y| reach[x][*y]).map(|y| &d.names[y]).collect();
                        if v.first() != Some(&d.names[x]) || set != want || set.len() != v.len() {
                            fail("breadth_first_search", "not-x-then-every-reachable-node-once", json!({"x": d.names[x], "got": v}));
                            break;
                        }
                    }
                }
            }
            // bfs_equal_size_partitions
            if rebuild == 0 {
                for k in 1..=(d.n + 2) {
                    ctx::eval(1);
                    match guard("bfs_equal_size_partitions", || components::bfs_equal_size_partitions(&g, k)) {
                        Err(c) => {
                            fail("bfs_equal_size_partitions", &c.class(), json!({"k": k, "caught": c.json()}));
                            break;
                        }
                        Ok(parts) => {
                            let mut cnt: HashMap<&String, usize> = HashMap::new();
                            for p in &parts {
                                for x in p {
                                    *cnt.entry(x).or_insert(0) += 1;
                                }
                            }
                            let bound = d.n / k + 1;
                            let bad = parts.len() != k
                                || cnt.len() != d.n
                                || cnt.values().any(|c| *c != 1)
                                || cnt.keys().any(|x| !d.idx.contains_key(*x))
                                || parts.iter().any(|p| p.len() > bound);
                            if bad {
                                fail("bfs_equal_size_partitions", "not-k-bounded-parts-covering-every-node-once", json!({"k": k, "n": d.n, "sizes": parts.iter().map(|p| p.len()).collect::<Vec<_>>()}));
                                break;
                            }
                        }
                    }
                }
            }
            match &prev {
                None => prev = Some(results),
                Some(p) => {
                    if *p != results {
                        fail("components", "partition-differs-between-rebuilds-of-the-same-graph", json!(null));
                    }
                }
            }
        }
        if case.n() >= 2 {
            ctx::nontrivial(case.hash());
            ctx::sample_tagged(&case.specs.kind_label(), || case.json());
        }
    }
    // graphs of 20 000..200 000 nodes made of rings and paths (long cycles, deep search depth),
    // inside pools of 1 and 4 threads
    for k in 0..(if a.thorough { 6 } else { 2 }) {
        if ctx::mine(total + k) {
            c10_huge(a, k);
        }
    }
}

// ============================================================================ C11

fn c11_case(rng: &mut Rng, multi: bool) -> GCase {
    let directed = rng.coin();
    let loops = rng.coin();
    let specs = Specs::kind(directed, multi, loops);
    let family = *rng.pick(FAMILIES);
    let n = rng.range(1, 12);
    let wclass = *rng.pick(&[WClass::Unweighted, WClass::Exact, WClass::ExactWide, WClass::Generic]);
    let mut case = gen_case(specs, family, n, wclass, &GenOpts { self_loops: true, parallel: multi, shuffle_edges: true }, rng);
    if wclass.weighted() && rng.chance(1, 4) {
        // every weight below 1 (the normalising maximum itself is then below 1)
        for e in case.edges.iter_mut() {
            e.2 /= 16.0;
        }
        ctx::count("reach:all-weights-below-1");
    }
    if wclass.weighted() && rng.chance(1, 6) {
        // weights 20 orders of magnitude apart inside one graph
        for e in case.edges.iter_mut() {
            if rng.coin() {
                e.2 *= 1e-20;
            }
        }
        ctx::count("reach:weights-20-orders-of-magnitude-apart");
    }
    if wclass.weighted() {
        // "self-loops never count": keep loop weights from deciding the normalising maximum
        let minw = case.edges.iter().map(|e| e.2).fold(f64::INFINITY, f64::min);
        for e in case.edges.iter_mut() {
            if e.0 == e.1 {
                e.2 = minw;
            }
        }
    }
    case
}

/// Rings, paths and isolated nodes with shuffled names: the components are known by construction.
fn c10_huge(a: &Args, k: u64) {
    let mut rng = Rng::new(mix(a.seed ^ 0xC10_B16, k));
    let directed = k % 2 == 0;
    let mut sizes_rings: Vec<usize> = vec![];
    let mut sizes_paths: Vec<usize> = vec![];
    match k % 3 {
        0 => sizes_rings.push(rng.range(100_000, 200_000)),
        1 => sizes_paths.push(rng.range(100_000, 200_000)),
        _ => {
            // the mixed shape stays below 20 000 nodes when directed, so that the strongly
            // connected components of a graph with thousands of path nodes are checked as well
            let cap = if directed { 600 } else { 4000 };
            for _ in 0..rng.range(5, 30) {
                sizes_rings.push(rng.range(3, cap));
                sizes_paths.push(rng.range(2, cap));
            }
        }
    }
    if rng.coin() && !(directed && k % 3 == 2) {
        sizes_rings.push(24_000 + rng.below(2000));
    }
    let isolated = rng.range(1, 200);
    let n: usize = sizes_rings.iter().sum::<usize>() + sizes_paths.iter().sum::<usize>() + isolated;
    let mut ids: Vec<usize> = (0..n).collect();
    rng.shuffle(&mut ids);
    let name = |i: usize| format!("v{:06}", i);
    let mut g: GS = Graph::new(Specs::kind(directed, false, false).to_real());
    for i in 0..n {
        g.add_node(graphrs::Node::from_name(name(i)));
    }
    let mut weak: Vec<Vec<usize>> = vec![];
    let mut strong: Vec<Vec<usize>> = vec![];
    let mut next = 0usize;
    let mut add = |g: &mut GS, u: usize, v: usize, flip: bool| {
        let (x, y) = if flip { (v, u) } else { (u, v) };
        g.add_edge(std::sync::Arc::new(graphrs::Edge { u: name(x), v: name(y), attributes: None, weight: f64::NAN })).expect("permissive specs");
    };
    for sz in &sizes_rings {
        let mem: Vec<usize> = ids[next..next + sz].to_vec();
        next += sz;
        for i in 0..*sz {
            add(&mut g, mem[i], mem[(i + 1) % sz], false);
        }
        weak.push(mem.clone());
        strong.push(mem);
    }
    for sz in &sizes_paths {
        let mem: Vec<usize> = ids[next..next + sz].to_vec();
        next += sz;
        for i in 1..*sz {
            // alternate directions on every third path: weakly connected only through both directions
            add(&mut g, mem[i - 1], mem[i], sz % 3 == 0 && i % 2 == 0);
        }
        weak.push(mem.clone());
        for x in mem {
            strong.push(vec![x]);
        }
    }
    for x in &ids[next..] {
        weak.push(vec![*x]);
        strong.push(vec![*x]);
    }
    ctx::case_desc(json!({"family": "huge rings, paths and isolated nodes", "n": n, "directed": directed, "rings": sizes_rings, "paths": sizes_paths.len(), "isolated": isolated}));
    let kind = kind_class(&g);
    let canon = |parts: &[Vec<usize>]| -> BTreeSet<Vec<usize>> {
        parts.iter().map(|p| { let mut q = p.clone(); q.sort(); q }).collect()
    };
    let got_canon = |parts: &[HashSet<String>]| -> BTreeSet<Vec<usize>> {
        parts.iter().map(|p| { let mut q: Vec<usize> = p.iter().map(|s| s[1..].parse::<usize>().unwrap_or(usize::MAX)).collect(); q.sort(); q }).collect()
    };
    let want_weak = canon(&weak);
    let want_strong = canon(&strong);
    for threads in [1usize, 4] {
        let pool = rayon::ThreadPoolBuilder::new().num_threads(threads).build().expect("pool");
        ctx::count(&format!("reach:more-than-20000-nodes:pool-of-{}", threads));
        let fail = |func: &str, class: &str, detail: Value| {
            ctx::violation(&format!("C10|{}|{}|{}", func, class, kind), &format!("{}: {} (graph of {} nodes, pool of {} threads)", func, class, n, threads), json!({"detail": detail, "n": n, "threads": threads}));
        };
        if directed {
            for (func, want) in [("weakly_connected_components", &want_weak), ("strongly_connected_components", &want_strong)] {
                // strongly_connected_components takes time quadratic in the number of nodes on
                // long paths (1 s at 10 000 nodes, 55 s at 80 000): slow, not wrong - it is only
                // asked about graphs it answers within a few seconds
                if func.starts_with('s') && n > 20_000 {
                    ctx::count("skipped:strongly_connected_components-on-more-than-20000-nodes");
                    continue;
                }
                ctx::eval(1);
                let r = guard(func, || pool.install(|| if func.starts_with('w') { components::weakly_connected_components(&g) } else { components::strongly_connected_components(&g) }));
                match r {
                    Ok(Ok(parts)) => {
                        let total: usize = parts.iter().map(|p| p.len()).sum();
                        if total != n || &got_canon(&parts) != want {
                            fail(func, "not-the-components-known-by-construction", json!({"sets": parts.len(), "want_sets": want.len(), "members_listed": total}));
                        }
                    }
                    Ok(Err(e)) => fail(func, &format!("error:{}", err_name(&e.kind)), json!(null)),
                    Err(c) => fail(func, &c.class(), c.json()),
                }
            }
        } else {
            ctx::eval(2);
            match guard("connected_components", || pool.install(|| components::connected_components(&g))) {
                Ok(Ok(parts)) => {
                    let total: usize = parts.iter().map(|p| p.len()).sum();
                    if total != n || got_canon(&parts) != want_weak {
                        fail("connected_components", "not-the-components-known-by-construction", json!({"sets": parts.len(), "want_sets": want_weak.len(), "members_listed": total}));
                    }
                }
                Ok(Err(e)) => fail("connected_components", &format!("error:{}", err_name(&e.kind)), json!(null)),
                Err(c) => fail("connected_components", &c.class(), c.json()),
            }
            match guard("number_of_connected_components", || pool.install(|| components::number_of_connected_components(&g))) {
                Ok(Ok(c)) if c == want_weak.len() => {}
                Ok(other) => fail("number_of_connected_components", "wrong-count", json!({"got": format!("{:?}", other.map_err(|e| err_name(&e.kind))), "want": want_weak.len()})),
                Err(c) => fail("number_of_connected_components", &c.class(), c.json()),
            }
        }
        // breadth-first search from a node of the largest ring / path
        let start = weak.iter().max_by_key(|p| p.len()).map(|p| p[p.len() / 2]).unwrap_or(0);
        ctx::eval(1);
        match guard("breadth_first_search", || pool.install(|| g.breadth_first_search(&name(start)))) {
            Ok(v) => {
                if v.first() != Some(&name(start)) || v.len() != v.iter().collect::<HashSet<_>>().len() {
                    fail("breadth_first_search", "not-x-then-every-reachable-node-once", json!({"listed": v.len()}));
                }
            }
            Err(c) => fail("breadth_first_search", &c.class(), c.json()),
        }
    }
    ctx::nontrivial(mix(0xB16, k));
}

pub fn run_c11(a: &Args) {
    let total: u64 = if a.thorough { 600_000 } else { 12_000 };
    for idx in 0..total {
        if !ctx::mine(idx) {
            continue;
        }
        let mut rng = Rng::new(mix(a.seed ^ 0xC11, idx));
        let large = idx % 400 == 399;
        let multi = idx % 12 == 11 && !large;
        let case = if large {
            // more than 100 nodes: any size-triggered fast path, with subsets of 1..3 nodes
            ctx::count("reach:graph-with-more-than-100-nodes");
            let fam: &'static str = *rng.pick(&["gnp_sparse", "tree", "nested_scc", "components"]);
            let n = *rng.pick(&[101usize, 120, 130]);
            gen_case(Specs::kind(rng.coin(), false, rng.coin()), fam, n, *rng.pick(&[WClass::Unweighted, WClass::Exact]), &GenOpts { self_loops: true, parallel: false, shuffle_edges: true }, &mut rng)
        } else {
            c11_case(&mut rng, multi)
        };
        ctx::case_desc(case.json());
        let g = case.build();
        let d = Dense::from_graph(&g);
        let kind = kind_class(&g);
        let n = d.n;
        let fail = |func: &str, class: &str, detail: Value| {
            ctx::violation(&format!("C11|{}|{}|{}", func, class, kind), &format!("{}: {}", func, class), json!({"detail": detail, "graph": case.json()}));
        };
        if d.has_self_loop() {
            ctx::count("reach:graph-with-self-loops");
        }
        let weighted_ok = case.wclass.weighted() && !d.any_nan && !d.edges.is_empty();
        // ---- kind guards on multi-edge graphs
        if multi {
            for w in [false, true] {
                // a multi-edge graph is refused with WrongMethod whatever else is wrong with the
                // call (weighted = true on edges without weights included)
                if w && !weighted_ok {
                    ctx::count("reach:weighted-request-on-unweighted-multigraph");
                }
                ctx::eval(2);
                match guard("clustering", || cluster::clustering(&g, w, None)) {
                    Ok(Err(e)) if matches!(e.kind, ErrorKind::WrongMethod) => ctx::count("guard:clustering-on-multi"),
                    Ok(Err(e)) => fail("clustering", &format!("wrong-error-on-multi:{}", err_name(&e.kind)), json!(null)),
                    Ok(Ok(_)) => fail("clustering", "multi-edge-graph-not-refused", json!(null)),
                    Err(c) => fail("clustering", &c.class(), c.json()),
                }
                match guard("average_clustering", || cluster::average_clustering(&g, w, None, true)) {
                    Ok(Err(e)) if matches!(e.kind, ErrorKind::WrongMethod) => {}
                    Ok(Err(e)) => fail("average_clustering", &format!("wrong-error-on-multi:{}", err_name(&e.kind)), json!(null)),
                    Ok(Ok(_)) => fail("average_clustering", "multi-edge-graph-not-refused", json!(null)),
                    Err(c) => fail("average_clustering", &c.class(), c.json()),
                }
            }
            ctx::eval(3);
            match guard("triangles", || cluster::triangles(&g, None)) {
                Ok(Err(e)) if matches!(e.kind, ErrorKind::WrongMethod) => {}
                Ok(Err(e)) => fail("triangles", &format!("wrong-error-on-multi:{}", err_name(&e.kind)), json!(null)),
                Ok(Ok(_)) => fail("triangles", "multi-edge-graph-not-refused", json!(null)),
                Err(c) => fail("triangles", &c.class(), c.json()),
            }
            match guard("transitivity", || cluster::transitivity(&g)) {
                Ok(Err(e)) if matches!(e.kind, ErrorKind::WrongMethod) => {}
                Ok(Err(e)) => fail("transitivity", &format!("wrong-error-on-multi:{}", err_name(&e.kind)), json!(null)),
                Ok(Ok(_)) => fail("transitivity", "multi-edge-graph-not-refused", json!(null)),
                Err(c) => fail("transitivity", &c.class(), c.json()),
            }
            match guard("generalized_degree", || cluster::generalized_degree(&g, None)) {
                Ok(Err(e)) if matches!(e.kind, ErrorKind::WrongMethod) => {}
                Ok(Err(e)) => fail("generalized_degree", &format!("wrong-error-on-multi:{}", err_name(&e.kind)), json!(null)),
                Ok(Ok(_)) => fail("generalized_degree", "multi-edge-graph-not-refused", json!(null)),
                Err(c) => fail("generalized_degree", &c.class(), c.json()),
            }
            continue;
        }
        // ---- subsets: the full node set (None) and 8 random non-empty proper subsets
        let mut subsets: Vec<Option<Vec<usize>>> = vec![None];
        if n >= 2 {
            for k in 0..8 {
                let mut s: Vec<usize> = (0..n).filter(|_| rng.chance(1, 3)).collect();
                if large {
                    s = (0..rng.range(1, 3)).map(|_| rng.below(n)).collect();
                    s.sort();
                    s.dedup();
                }
                if s.is_empty() || k < 2 {
                    s = vec![rng.below(n)]; // singletons whose neighbours lie outside the subset
                }
                if s.len() == n {
                    s.pop();
                }
                rng.shuffle(&mut s);
                subsets.push(Some(s));
            }
        }
        // ---- clustering
        let modes: Vec<bool> = if weighted_ok { vec![false, true] } else { vec![false] };
        for w in modes {
            let want = oracle::clustering(&d, w);
            let mut full: Option<HashMap<String, f64>> = None;
            for sub in &subsets {
                let names: Option<Vec<String>> = sub.as_ref().map(|s| s.iter().map(|i| d.names[*i].clone()).collect());
                ctx::eval(1);
                match guard("clustering", || cluster::clustering(&g, w, names.as_deref())) {
                    Err(c) => fail("clustering", &c.class(), json!({"subset": names, "caught": c.json()})),
                    Ok(Err(e)) => fail("clustering", &format!("error:{}", err_name(&e.kind)), json!({"subset": names, "weighted": w})),
                    Ok(Ok(map)) => {
                        let want_keys: BTreeSet<&String> = match sub {
                            None => d.names.iter().collect(),
                            Some(s) => s.iter().map(|i| &d.names[*i]).collect(),
                        };
                        if map.keys().collect::<BTreeSet<_>>() != want_keys {
                            fail("clustering", "wrong-key-set", json!({"subset": names, "got": map.keys().collect::<Vec<_>>()}));
                            continue;
                        }
                        for (k, v) in &map {
                            let i = d.idx[k];
                            if !(*v >= 0.0 && *v <= 1.0 + 1e-12) {
                                fail("clustering", "coefficient-outside-0-1", json!({"node": k, "got": v, "weighted": w, "subset": names}));
                                break;
                            }
                            // relative comparison: weighted coefficients can be legitimately tiny
                            let close = *v == want[i] || (*v - want[i]).abs() <= 1e-9 * v.abs().max(want[i].abs());
                            if !close {
                                fail("clustering", if sub.is_some() { "subset-value-differs-from-definition" } else { "value-differs-from-definition" }, json!({"node": k, "got": v, "want": want[i], "weighted": w, "subset": names}));
                                break;
                            }
                        }
                        if sub.is_none() {
                            full = Some(map);
                        } else {
                            ctx::count("reach:proper-subset");
                        }
                    }
                }
            }
            // average_clustering over the full node set
            if let Some(full) = &full {
                for count_zeros in [true, false] {
                    let vals: Vec<f64> = full.values().copied().filter(|v| count_zeros || *v != 0.0).collect();
                    if vals.is_empty() {
                        continue; // empty mean: unconstrained
                    }
                    let want_avg = vals.iter().sum::<f64>() / vals.len() as f64;
                    ctx::eval(1);
                    match guard("average_clustering", || cluster::average_clustering(&g, w, None, count_zeros)) {
                        Ok(Ok(x)) => {
                            if !approx(x, want_avg) {
                                fail("average_clustering", "not-the-mean-of-the-counted-coefficients", json!({"got": x, "want": want_avg, "count_zeros": count_zeros, "weighted": w}));
                            }
                        }
                        Ok(Err(e)) => fail("average_clustering", &format!("error:{}", err_name(&e.kind)), json!(null)),
                        Err(c) => fail("average_clustering", &c.class(), c.json()),
                    }
                }
            }
        }
        // ---- undirected-only functions
        if d.directed {
            ctx::eval(3);
            match guard("triangles", || cluster::triangles(&g, None)) {
                Ok(Err(e)) if matches!(e.kind, ErrorKind::WrongMethod) => ctx::count("guard:triangles-on-directed"),
                Ok(_) => fail("triangles", "directed-graph-not-refused", json!(null)),
                Err(c) => fail("triangles", &c.class(), c.json()),
            }
            match guard("transitivity", || cluster::transitivity(&g)) {
                Ok(Err(e)) if matches!(e.kind, ErrorKind::WrongMethod) => {}
                Ok(_) => fail("transitivity", "directed-graph-not-refused", json!(null)),
                Err(c) => fail("transitivity", &c.class(), c.json()),
            }
            match guard("generalized_degree", || cluster::generalized_degree(&g, None)) {
                Ok(Err(e)) if matches!(e.kind, ErrorKind::WrongMethod) => {}
                Ok(_) => fail("generalized_degree", "directed-graph-not-refused", json!(null)),
                Err(c) => fail("generalized_degree", &c.class(), c.json()),
            }
        } else {
            let want_t = oracle::triangles(&d);
            let want_gd = oracle::generalized_degree(&d);
            let want_sq = oracle::square_clustering(&d);
            for sub in &subsets {
                let names: Option<Vec<String>> = sub.as_ref().map(|s| s.iter().map(|i| d.names[*i].clone()).collect());
                let want_keys: BTreeSet<&String> = match sub {
                    None => d.names.iter().collect(),
                    Some(s) => s.iter().map(|i| &d.names[*i]).collect(),
                };
                ctx::eval(3);
                match guard("triangles", || cluster::triangles(&g, names.as_deref())) {
                    Err(c) => fail("triangles", &c.class(), json!({"subset": names, "caught": c.json()})),
                    Ok(Err(e)) => fail("triangles", &format!("error:{}", err_name(&e.kind)), json!({"subset": names})),
                    Ok(Ok(map)) => {
                        if map.keys().collect::<BTreeSet<_>>() != want_keys {
                            fail("triangles", "wrong-key-set", json!({"subset": names}));
                        } else if let Some((k, v)) = map.iter().find(|(k, v)| **v != want_t[d.idx[*k]]) {
                            fail("triangles", if sub.is_some() { "subset-value-differs-from-definition" } else { "value-differs-from-definition" }, json!({"node": k, "got": v, "want": want_t[d.idx[k]], "subset": names}));
                        }
                    }
                }
                match guard("generalized_degree", || cluster::generalized_degree(&g, names.as_deref())) {
                    Err(c) => fail("generalized_degree", &c.class(), json!({"subset": names, "caught": c.json()})),
                    Ok(Err(e)) => fail("generalized_degree", &format!("error:{}", err_name(&e.kind)), json!({"subset": names})),
                    Ok(Ok(map)) => {
                        if map.keys().collect::<BTreeSet<_>>() != want_keys {
                            fail("generalized_degree", "wrong-key-set", json!({"subset": names}));
                        } else if let Some((k, v)) = map.iter().find(|(k, v)| **v != want_gd[d.idx[*k]]) {
                            fail("generalized_degree", if sub.is_some() { "subset-value-differs-from-definition" } else { "value-differs-from-definition" }, json!({"node": k, "got": format!("{:?}", v), "want": format!("{:?}", want_gd[d.idx[k]]), "subset": names}));
                        }
                    }
                }
                match guard("square_clustering", || cluster::square_clustering(&g, names.as_deref())) {
                    Err(c) => fail("square_clustering", &c.class(), json!({"subset": names, "caught": c.json()})),
                    Ok(map) => {
                        if map.keys().collect::<BTreeSet<_>>() != want_keys {
                            fail("square_clustering", "wrong-key-set", json!({"subset": names}));
                        } else {
                            for (k, v) in &map {
                                if !(*v >= 0.0 && *v <= 1.0 + 1e-12) {
                                    fail("square_clustering", "coefficient-outside-0-1", json!({"node": k, "got": v}));
                                    break;
                                }
                                if !approx(*v, want_sq[d.idx[k]]) {
                                    fail("square_clustering", if sub.is_some() { "subset-value-differs-from-definition" } else { "value-differs-from-definition" }, json!({"node": k, "got": v, "want": want_sq[d.idx[k]], "subset": names}));
                                    break;
                                }
                            }
                        }
                    }
                }
            }
            ctx::eval(1);
            let want_tr = oracle::transitivity(&d);
            match guard("transitivity", || cluster::transitivity(&g)) {
                Err(c) => fail("transitivity", &c.class(), c.json()),
                Ok(Err(e)) => fail("transitivity", &format!("error:{}", err_name(&e.kind)), json!(null)),
                Ok(Ok(x)) => {
                    if !approx(x, want_tr) || !(x >= 0.0 && x <= 1.0 + 1e-12) {
                        fail("transitivity", "value-differs-from-definition", json!({"got": x, "want": want_tr}));
                    }
                }
            }
            if want_t.iter().any(|t| *t > 0) {
                ctx::count("reach:undirected-graph-with-triangles");
            }
        }
        if n >= 3 && d.edges.len() >= 2 {
            ctx::nontrivial(case.hash());
            ctx::sample_tagged(&format!("{}-{:?}", case.specs.kind_label(), case.wclass), || case.json());
        }
    }
}

// ============================================================================ C12

fn oracle_is_partition(d: &Dense, fam: &[HashSet<String>]) -> bool {
    let mut seen: HashSet<&String> = HashSet::new();
    for c in fam {
        for x in c {
            if !d.idx.contains_key(x) || !seen.insert(x) {
                return false;
            }
        }
    }
    seen.len() == d.n
}

/// A node-name type that is not a string: ordered, hashed and compared by (id, label), printed as
/// its label only - and several nodes share a label.
#[derive(Clone, Debug, PartialEq, Eq, Hash, PartialOrd, Ord)]
struct Tagged {
    id: u32,
    label: &'static str,
}

impl std::fmt::Display for Tagged {
    fn fmt(&self, f: &mut std::fmt::Formatter<'_>) -> std::fmt::Result {
        write!(f, "{}", self.label)
    }
}

/// The graph of `case` with `Tagged` names: true partitions must be accepted and valued by the
/// same formula, near-partitions refused.
fn c12_tagged_names(case: &GCase, d: &Dense, rng: &mut Rng, kind: &str) {
    let n = d.n;
    let tag = |i: usize| Tagged { id: (n - i) as u32, label: ["x", "y", "x y"][i % 3] };
    let mut g: Graph<Tagged, ()> = Graph::new(case.effective_specs().to_real());
    for i in 0..n {
        g.add_node(graphrs::Node::from_name(tag(i)));
    }
    for (u, v, w) in &d.edges {
        let _ = g.add_edge(std::sync::Arc::new(graphrs::Edge { u: tag(*u), v: tag(*v), attributes: None, weight: *w }));
    }
    if g.get_all_edges().len() != d.edges.len() {
        return; // a duplicate policy acted differently on the re-listed edges: not comparable
    }
    let k = rng.range(1, n.min(4));
    let comm: Vec<usize> = (0..n).map(|_| rng.below(k)).collect();
    let mut fam: Vec<HashSet<Tagged>> = vec![HashSet::new(); k];
    for i in 0..n {
        fam[comm[i]].insert(tag(i));
    }
    ctx::eval(3);
    ctx::count("reach:node-names-of-a-non-string-type-with-shared-labels");
    let detail = || json!({"graph": case.json(), "communities": comm, "names": "Tagged { id: n - i, label: [x, y, x y][i % 3] }, printed as the label"});
    match guard("is_partition", || partitions::is_partition(&g, &fam)) {
        Ok(true) => {}
        Ok(false) => ctx::violation(&format!("C12|is_partition|rejected-partition|{}", kind), "is_partition rejected a true partition (node names of a non-string type)", detail()),
        Err(c) => ctx::violation(&format!("C12|is_partition|{}|{}", c.class(), kind), "is_partition panicked", json!({"caught": c.json(), "input": detail()})),
    }
    let weighted = case.wclass.weighted() && !d.any_nan;
    let want = oracle::modularity(d, &comm, weighted, 1.0);
    if want.is_finite() && !d.edges.is_empty() {
        match guard("modularity", || partitions::modularity(&g, &fam, weighted, Some(1.0))) {
            Ok(Ok(q)) if approx(q, want) => {}
            Ok(Ok(q)) => ctx::violation(&format!("C12|modularity|value-differs-from-newman-formula|{}", kind), "modularity differs from Newman's formula (node names of a non-string type)", json!({"got": q, "want": want, "input": detail()})),
            Ok(Err(e)) => ctx::violation(&format!("C12|modularity|error-on-true-partition:{}|{}", err_name(&e.kind), kind), "modularity refused a true partition (node names of a non-string type)", detail()),
            Err(c) => ctx::violation(&format!("C12|modularity|{}|{}", c.class(), kind), "modularity panicked", json!({"caught": c.json(), "input": detail()})),
        }
    }
    // a near-partition: one node listed twice
    if k >= 1 && n >= 2 {
        let mut bad = fam.clone();
        bad.push([tag(0)].into_iter().collect());
        if let Ok(true) = guard("is_partition", || partitions::is_partition(&g, &bad)) {
            ctx::violation(&format!("C12|is_partition|accepted-non-partition|{}", kind), "is_partition accepted a family listing a node twice (node names of a non-string type)", detail());
        }
    }
}

pub fn run_c12(a: &Args) {
    let kinds = kinds8();
    // (a) exhaustive small scope for is_partition: node sets of size 0..=4 (3 in quick) plus one
    // foreign name, every family of <= 3 subsets of that universe
    let max_nodes = if a.thorough { 4 } else { 3 };
    let mut idx: u64 = 0;
    for nn in 0..=max_nodes {
        for directed in [false, true] {
            let this = idx;
            idx += 1;
            if !ctx::mine(this) {
                continue;
            }
            let names: Vec<String> = ["m", "b", "z", "a"][..nn].iter().map(|s| s.to_string()).collect();
            let mut edges = vec![];
            for i in 1..nn {
                edges.push((i - 1, i, 1.5));
            }
            let case = GCase { specs: Specs::kind(directed, false, false), names: names.clone(), edges, family: "path", wclass: WClass::Exact };
            ctx::case_desc(case.json());
            let g = case.build();
            let d = Dense::from_graph(&g);
            let kind = kind_class(&g);
            let mut universe = names.clone();
            universe.push("foreign".to_string());
            let u = universe.len();
            let subsets: Vec<HashSet<String>> = (0..(1u32 << u)).map(|mask| (0..u).filter(|i| mask & (1 << i) != 0).map(|i| universe[i].clone()).collect()).collect();
            let ns = subsets.len();
            let mut check = |fam: Vec<HashSet<String>>| {
                let want = oracle_is_partition(&d, &fam);
                ctx::eval(1);
                match guard("is_partition", || partitions::is_partition(&g, &fam)) {
                    Err(c) => ctx::violation(&format!("C12|is_partition|{}|{}", c.class(), kind), "is_partition panicked", json!({"family": format!("{:?}", fam), "nodes": names})),
                    Ok(got) => {
                        if got != want {
                            ctx::violation(
                                &format!("C12|is_partition|{}|{}", if got { "accepted-non-partition" } else { "rejected-partition" }, kind),
                                "is_partition disagrees with: pairwise disjoint, only graph nodes, covering",
                                json!({"family": fam.iter().map(|c| c.iter().collect::<BTreeSet<_>>()).collect::<Vec<_>>(), "nodes": names, "got": got}),
                            );
                        }
                    }
                }
                if !want && fam.len() <= 2 {
                    // a non-partition must be refused by modularity with NotAPartition, never a panic
                    ctx::eval(1);
                    match guard("modularity", || partitions::modularity(&g, &fam, false, None)) {
                        Ok(Err(e)) if matches!(e.kind, ErrorKind::NotAPartition) => {}
                        Ok(Err(e)) => ctx::violation(&format!("C12|modularity|wrong-error:{}|{}", err_name(&e.kind), kind), "modularity refused a non-partition with the wrong error", json!({"family": format!("{:?}", fam)})),
                        Ok(Ok(_)) => ctx::violation(&format!("C12|modularity|non-partition-not-rejected|{}", kind), "modularity accepted a family that is not a partition", json!({"family": fam.iter().map(|c| c.iter().collect::<BTreeSet<_>>()).collect::<Vec<_>>(), "nodes": names})),
                        Err(c) => ctx::violation(&format!("C12|modularity|{}|{}", c.class(), kind), "modularity panicked on a non-partition", json!({"family": format!("{:?}", fam), "caught": c.json()})),
                    }
                }
            };
            for i in 0..ns {
                check(vec![subsets[i].clone()]);
                for j in 0..ns {
                    check(vec![subsets[i].clone(), subsets[j].clone()]);
                    if nn <= 3 || (i + j) % 3 == 0 || a.thorough {
                        for k in 0..ns {
                            check(vec![subsets[i].clone(), subsets[j].clone(), subsets[k].clone()]);
                        }
                    }
                }
            }
            ctx::count("exhaustive:is_partition-scope-completed");
            ctx::nontrivial(mix(nn as u64, directed as u64 + 0xE12));
        }
    }
    // (b) random graphs and partitions for the formula
    let total: u64 = if a.thorough { 400_000 } else { 10_000 };
    let base = 1000;
    for r in 0..total {
        let idx = base + r;
        if !ctx::mine(idx) {
            continue;
        }
        let mut rng = Rng::new(mix(a.seed ^ 0xC12, idx));
        let case = if r % 300 == 151 {
            // one community with more than a thousand inner edges (parallel edges of a multigraph)
            let specs = Specs::kind(rng.coin(), true, rng.coin());
            let n = rng.range(4, 9);
            let names = scrambled_names(n, &mut rng);
            let m = *rng.pick(&[1030usize, 1100, 1500, 2049, 2500, 2600]);
            let wclass = *rng.pick(&[WClass::Exact, WClass::Generic]);
            let edges: Vec<(usize, usize, f64)> = (0..m).map(|_| (rng.below(n), rng.below(n), wclass.draw(&mut rng))).filter(|e| specs.self_loops || e.0 != e.1).collect();
            ctx::count("reach:community-with-more-than-1000-inner-edges");
            GCase { specs, names, edges, family: "many-parallel-edges", wclass }
        } else if r % 250 == 249 {
            let n = *rng.pick(&[63usize, 64, 65, 128, 192]);
            ctx::count("reach:node-count-around-multiple-of-64");
            gen_case(*rng.pick(&kinds), "gnp_sparse", n, *rng.pick(&[WClass::Unweighted, WClass::Exact]), &GenOpts { self_loops: rng.coin(), parallel: rng.coin(), shuffle_edges: true }, &mut rng)
        } else {
            random_case(&mut rng, 1, 25, &kinds, &[WClass::Unweighted, WClass::Exact, WClass::ExactWide, WClass::Generic])
        };
        if case.edges.is_empty() {
            continue;
        }
        ctx::case_desc(case.json());
        let g = case.build();
        let d = Dense::from_graph(&g);
        let kind = kind_class(&g);
        let n = d.n;
        let modes: Vec<bool> = if case.wclass.weighted() { vec![true, false] } else { vec![false] };
        // node names of another type, whose printed form is shared by several nodes
        if r % 10 == 3 && n >= 2 {
            c12_tagged_names(&case, &d, &mut rng, &kind);
        }
        // a random true partition, possibly with an empty community
        let k = if case.family == "many-parallel-edges" { rng.range(1, 2) } else { rng.range(1, n.min(6)) };
        let comm: Vec<usize> = (0..n).map(|_| rng.below(k)).collect();
        // re-used Arcs of one edge object (vec![edge; k]) are covered by the builder below
        let mut fam: Vec<HashSet<String>> = vec![HashSet::new(); k];
        for i in 0..n {
            fam[comm[i]].insert(d.names[i].clone());
        }
        let with_empty = rng.chance(1, 5);
        if with_empty {
            fam.push(HashSet::new());
        }
        for weighted in modes {
            // "all resolutions > 0": the usual range and both ends of the f64 range
            for gamma in [0.25, 0.5, 1.0, 1.5, 2.0, 1e-300, 1e-9, 1e9, 1e300] {
                if gamma < 1e-8 || gamma > 1e8 {
                    ctx::count("reach:extreme-resolution");
                }
                let want = oracle::modularity(&d, &comm, weighted, gamma);
                if !want.is_finite() {
                    // extreme weights times an extreme resolution overflow in the formula itself
                    ctx::count("skipped:expected-modularity-not-finite");
                    continue;
                }
                ctx::eval(1);
                match guard("modularity", || partitions::modularity(&g, &fam, weighted, if gamma == 1.0 && rng.coin() { None } else { Some(gamma) })) {
                    Err(c) => ctx::violation(&format!("C12|modularity|{}|{}", c.class(), kind), "modularity panicked on a true partition", json!({"caught": c.json(), "graph": case.json(), "communities": comm})),
                    Ok(Err(e)) => ctx::violation(&format!("C12|modularity|error-on-true-partition:{}|{}", err_name(&e.kind), kind), "modularity refused a true partition", json!({"graph": case.json(), "communities": comm, "with_empty_community": with_empty})),
                    Ok(Ok(q)) => {
                        if !approx(q, want) {
                            ctx::violation(
                                &format!("C12|modularity|value-differs-from-newman-formula|{}", kind),
                                "modularity differs from Newman's formula",
                                json!({"got": q, "want": want, "weighted": weighted, "resolution": gamma, "graph": case.json(), "communities": comm}),
                            );
                        }
                    }
                }
            }
        }
        // near-partitions
        for variant in 0..4 {
            let mut bad = fam.clone();
            let x = d.names[rng.below(n)].clone();
            let desc = match variant {
                0 => {
                    // duplicate an element into another community (needs >= 2 communities)
                    bad.push([x.clone()].into_iter().collect());
                    "element-duplicated"
                }
                1 => {
                    for c in bad.iter_mut() {
                        c.remove(&x);
                    }
                    "element-dropped"
                }
                2 => {
                    for c in bad.iter_mut() {
                        if c.remove(&x) {
                            c.insert("zz-foreign".to_string());
                        }
                    }
                    "element-replaced-by-foreign-name"
                }
                _ => {
                    // overlap and omission cancel in the member count
                    let y = d.names[rng.below(n)].clone();
                    if y == x {
                        continue;
                    }
                    for c in bad.iter_mut() {
                        c.remove(&x);
                    }
                    bad.push([y.clone()].into_iter().collect());
                    "overlap-and-omission-cancel"
                }
            };
            ctx::eval(2);
            ctx::count(&format!("reach:near-partition:{}", desc));
            match guard("is_partition", || partitions::is_partition(&g, &bad)) {
                Ok(false) => {}
                Ok(true) => ctx::violation(&format!("C12|is_partition|accepted-non-partition|{}", kind), "is_partition accepted a near-partition", json!({"variant": desc, "family": bad.iter().map(|c| c.iter().collect::<BTreeSet<_>>()).collect::<Vec<_>>(), "graph": case.json()})),
                Err(c) => ctx::violation(&format!("C12|is_partition|{}|{}", c.class(), kind), "is_partition panicked", json!({"variant": desc, "caught": c.json()})),
            }
            match guard("modularity", || partitions::modularity(&g, &bad, false, Some(1.0))) {
                Ok(Err(e)) if matches!(e.kind, ErrorKind::NotAPartition) => {}
                Ok(Err(e)) => ctx::violation(&format!("C12|modularity|wrong-error:{}|{}", err_name(&e.kind), kind), "modularity refused a non-partition with the wrong error", json!({"variant": desc})),
                Ok(Ok(_)) => ctx::violation(&format!("C12|modularity|non-partition-not-rejected|{}", kind), "modularity accepted a near-partition", json!({"variant": desc, "graph": case.json()})),
                Err(c) => ctx::violation(&format!("C12|modularity|{}|{}", c.class(), kind), "modularity panicked on a non-partition", json!({"variant": desc, "caught": c.json(), "graph": case.json()})),
            }
        }
        if d.has_self_loop() {
            ctx::count("reach:modularity-with-self-loops");
        }
        if case.specs.multi && d.edges.len() > (0..n).map(|u| (0..n).filter(|v| d.mult[u][*v] > 0 && (d.directed || u <= *v)).count()).sum::<usize>() {
            // parallel edges inside one community?
            if d.edges.iter().any(|(u, v, _)| comm[*u] == comm[*v] && d.mult[*u][*v] >= 2) {
                ctx::count("reach:parallel-edges-inside-a-community");
            }
        }
        ctx::nontrivial(mix(case.hash(), fnv(format!("{:?}", comm).as_bytes())));
        ctx::sample_tagged(&case.specs.kind_label(), || json!({"graph": case.json(), "communities": comm}));
    }
}

// ============================================================================ C13

fn ring_of_cliques(specs: Specs, cliques: usize, size: usize, wclass: WClass, rng: &mut Rng) -> GCase {
    let n = cliques * size;
    let names = scrambled_names(n, rng);
    let mut edges = vec![];
    for c in 0..cliques {
        let b = c * size;
        for i in 0..size {
            for j in (i + 1)..size {
                edges.push((b + i, b + j, wclass.draw(rng)));
                if specs.directed && rng.coin() {
                    edges.push((b + j, b + i, wclass.draw(rng)));
                }
            }
        }
        if cliques > 1 {
            let nb = ((c + 1) % cliques) * size;
            edges.push((b + size - 1, nb, wclass.draw(rng)));
        }
    }
    rng.shuffle(&mut edges);
    GCase { specs, names, edges, family: "ring_of_cliques", wclass }
}

/// Louvain on `Graph<i32, ()>`: names such as -50, -13, 9, 10, 100 sort differently as numbers
/// and as text. Levels must be nested partitions of exactly these names and, on single-edge
/// graphs, the modularity (oracle, evaluated on the isomorphic String-named graph) must not decrease.
#[allow(clippy::too_many_arguments)]
fn c13_integer_names(d: &Dense, specs: Specs, weighted: bool, gamma: f64, threshold: Option<f64>, seed: u64, kind: &str, opts: &Value) {
    let n = d.n;
    let name = |i: usize| -> i32 { ((i as i32 * 37) % 211) - 50 + if i % 5 == 0 { 1000 } else { 0 } };
    let mut g: Graph<i32, ()> = Graph::new(specs.to_real());
    for i in 0..n {
        g.add_node(graphrs::Node::from_name(name(i)));
    }
    for (u, v, w) in &d.edges {
        let _ = g.add_edge(std::sync::Arc::new(graphrs::Edge { u: name(*u), v: name(*v), attributes: None, weight: *w }));
    }
    if g.get_all_edges().len() != d.edges.len() {
        return;
    }
    let back: HashMap<i32, usize> = (0..n).map(|i| (name(i), i)).collect();
    let fail = |class: &str, detail: Value| {
        ctx::violation(&format!("C13|louvain_partitions|{}:integer-names|{}", class, kind), &format!("louvain_partitions on integer node names: {}", class), json!({"detail": detail, "options": opts, "names": (0..n).map(name).collect::<Vec<_>>(), "edges": d.edges.iter().map(|(u, v, w)| json!([name(*u), name(*v), w])).collect::<Vec<_>>()}));
    };
    graphrs::verif_hooks::take_ticks("louvain_sweep");
    graphrs::verif_hooks::take_ticks("louvain_level");
    ctx::eval(1);
    ctx::count("reach:integer-node-names");
    let levels = match guard("louvain_partitions", || louvain::louvain_partitions(&g, weighted, Some(gamma), threshold, Some(seed))) {
        Ok(Ok(l)) => l,
        Ok(Err(e)) => return fail(&format!("error:{}", err_name(&e.kind)), json!(null)),
        Err(c) => return fail(&c.class(), c.json()),
    };
    let mut prev_comm: Option<Vec<usize>> = None;
    let singles: Vec<usize> = (0..n).collect();
    let mut prev_q = if !specs.multi { Some(oracle::modularity(d, &singles, weighted, gamma)) } else { None };
    for (li, level) in levels.iter().enumerate() {
        let mut comm = vec![usize::MAX; n];
        for (ci, c) in level.iter().enumerate() {
            for x in c {
                match back.get(x) {
                    Some(i) if comm[*i] == usize::MAX => comm[*i] = ci,
                    _ => return fail("level-is-not-a-partition-of-the-node-names", json!({"level": li, "name": x})),
                }
            }
        }
        if comm.iter().any(|c| *c == usize::MAX) {
            return fail("node-missing-from-level", json!({"level": li}));
        }
        if let Some(pc) = &prev_comm {
            let mut map: HashMap<usize, usize> = HashMap::new();
            for i in 0..n {
                if *map.entry(pc[i]).or_insert(comm[i]) != comm[i] {
                    return fail("level-not-a-coarsening-of-the-previous-one", json!({"level": li}));
                }
            }
        }
        if let Some(pq) = prev_q {
            let q = oracle::modularity(d, &comm, weighted, gamma);
            if q < pq - 1e-9 {
                return fail(if li == 0 { "first-level-worse-than-singletons" } else { "modularity-decreased-between-levels" }, json!({"level": li, "previous": pq, "this": q}));
            }
            prev_q = Some(q);
        }
        prev_comm = Some(comm);
    }
}

pub fn run_c13(a: &Args) {
    let kinds = kinds8();
    let total: u64 = if a.thorough { 3_000_000 } else { 240_000 };
    for idx in 0..total {
        if !ctx::mine(idx) {
            continue;
        }
        let mut rng = Rng::new(mix(a.seed ^ 0xC13, idx));
        let wcl = [WClass::Unweighted, WClass::Exact, WClass::ExactWide, WClass::Generic];
        let mut stars = false;
        let mut tiny_gain = false;
        let mut tripled = false;
        let case = match idx % 10 {
            0 | 1 => {
                let specs = *rng.pick(&kinds);
                let big = idx % 200 == 0;
                let cliques = if big { rng.range(40, 100) } else { rng.range(3, 14) };
                ring_of_cliques(specs, cliques, rng.range(3, 4), *rng.pick(&wcl), &mut rng)
            }
            2 => {
                // directed cycles and paths: the shapes on which only-out-neighbour scoring loops
                let specs = Specs::kind(true, rng.coin(), rng.coin());
                let fam: &'static str = if rng.coin() { "cycle" } else { "path" };
                gen_case(specs, fam, rng.range(2, 40), *rng.pick(&wcl), &GenOpts { self_loops: rng.coin(), parallel: rng.coin(), shuffle_edges: true }, &mut rng)
            }
            3 | 4 | 5 | 6 | 7 => {
                // small graphs with small integer weights: many exact ties and zero gains, nodes
                // get stranded in communities whose other members they are not adjacent to
                let specs = Specs::kind(rng.chance(1, 3), false, rng.coin());
                let n = rng.range(4, 12);
                let fam: &'static str = *rng.pick(&["gnp_sparse", "gnp_mid", "gnp_mid", "tree", "cycle", "barbell", "components"]);
                let mut c = gen_case(specs, fam, n, WClass::Exact, &GenOpts { self_loops: true, parallel: false, shuffle_edges: true }, &mut rng);
                for e in c.edges.iter_mut() {
                    e.2 = rng.range(1, 5) as f64;
                }
                c
            }
            8 if idx % 30 == 8 => {
                // one edge of weight 10^5..10^9 beside a unit-weight path or cycle: the total weight
                // is dominated by the heavy edge, so every merge on the unit part gains between
                // 1e-10 and 1e-4 - the region of the default stopping threshold
                tiny_gain = true;
                let specs = Specs::kind(rng.chance(1, 4), false, false);
                let len = rng.range(8, 24);
                let names: Vec<String> = (0..len + 2).map(|i| format!("u{}", i)).collect();
                let mut edges: Vec<(usize, usize, f64)> = vec![(len, len + 1, f64::powi(10.0, rng.range(5, 9) as i32))];
                for i in 1..len {
                    edges.push((i - 1, i, 1.0));
                }
                if rng.coin() {
                    edges.push((len - 1, 0, 1.0));
                }
                rng.shuffle(&mut edges);
                ctx::count("reach:gains-near-the-default-threshold");
                GCase { specs, names, edges, family: "heavy-edge-beside-unit-path", wclass: WClass::Exact }
            }
            8 => {
                // one to three stars whose leaves hang on edges of very unequal weight, next to a
                // component that needs a second level (path, cycle or clique): with a resolution
                // above 1 a hub follows its heaviest leaf and leaves the light leaves behind in
                // a community they are no longer adjacent to
                stars = true;
                let specs = Specs::kind(rng.chance(1, 4), false, false);
                let mut names: Vec<String> = vec![];
                let mut edges: Vec<(usize, usize, f64)> = vec![];
                for _ in 0..rng.range(1, 3) {
                    let hub = names.len();
                    names.push(format!("h{}", hub));
                    let leaves = rng.range(2, 6);
                    let base = *rng.pick(&[2.0, 3.0, 1.5]);
                    for l in 0..leaves {
                        let leaf = names.len();
                        names.push(format!("l{}", leaf));
                        let w = if rng.coin() { ((l + 1) * (l + 1)) as f64 } else { f64::powi(base, l as i32) };
                        if rng.coin() { edges.push((hub, leaf, w)) } else { edges.push((leaf, hub, w)) }
                    }
                }
                let first = names.len();
                let extra = rng.range(3, 7);
                for i in 0..extra {
                    names.push(format!("p{}", first + i));
                }
                match rng.below(3) {
                    0 => (1..extra).for_each(|i| edges.push((first + i - 1, first + i, 1.0))),
                    1 => (0..extra).for_each(|i| edges.push((first + i, first + (i + 1) % extra, 1.0))),
                    _ => (0..extra).for_each(|i| (0..i).for_each(|j| edges.push((first + j, first + i, 1.0)))),
                }
                if rng.chance(1, 3) {
                    // a light bridge between a star and the other component
                    edges.push((rng.below(first), first + rng.below(extra), 1.0));
                }
                rng.shuffle(&mut edges);
                GCase { specs, names, edges, family: "stars-with-unequal-leaves-plus-component", wclass: WClass::Exact }
            }
            9 if idx % 20 == 9 => {
                // a symmetric (tie-rich) shape as a multigraph: every edge becomes three parallel
                // edges weighing 0.1, 0.2 and 0.3 in rotating order, so that weights which "should"
                // be equal differ in their last bit (0.6 vs 0.6000000000000001)
                tripled = true;
                let mut c = crate::props_gen::tie_rich_case(&mut rng, idx);
                const PERMS: [[f64; 3]; 4] = [[0.1, 0.2, 0.3], [0.3, 0.2, 0.1], [0.2, 0.3, 0.1], [0.3, 0.1, 0.2]];
                let mut e3 = vec![];
                for (i, (u, v, _)) in c.edges.iter().enumerate() {
                    for w in PERMS[i % 4] {
                        e3.push((*u, *v, w));
                    }
                }
                c.edges = e3;
                c.specs.multi = true;
                c.wclass = WClass::Generic;
                ctx::count("reach:multigraph-with-three-inexact-parallel-edges-per-pair");
                c
            }
            _ => random_case(&mut rng, 2, if a.thorough { 64 } else { 40 }, &kinds, &wcl),
        };
        if case.edges.is_empty() {
            continue;
        }
        let g = case.build();
        let d = Dense::from_graph(&g);
        let kind = kind_class(&g);
        let n = d.n;
        let weighted = (case.wclass.weighted() && rng.chance(3, 4)) || stars || tiny_gain || tripled;
        let gamma = if stars {
            ctx::count("reach:stars-with-unequal-leaves-at-resolution-above-1");
            if rng.coin() { *rng.pick(&[1.3, 1.5, 1.7, 2.0]) } else { 1.1 + 0.9 * rng.f64() }
        } else if rng.coin() { *rng.pick(&[0.3, 0.7, 1.0, 1.0, 1.5, 2.0]) } else { 0.05 + 1.95 * rng.f64() };
        let threshold = if stars { *rng.pick(&[0.0, 0.0, 1e-7]) } else { *rng.pick(&[0.0, 1e-7, 1e-7, 1e-2, 0.5]) };
        // the ends of the stated ranges: resolutions in (0,2], thresholds >= 0
        let (gamma, threshold) = if !stars && rng.chance(1, 12) {
            ctx::count("reach:extreme-resolution-or-threshold");
            (*rng.pick(&[5e-324, 1e-300, 1e-12, 2.0, gamma]), *rng.pick(&[threshold, 5e-324, 1e300, f64::INFINITY]))
        } else {
            (gamma, threshold)
        };
        let seed = match rng.below(12) {
            0 => u64::MAX - rng.below(3) as u64,
            1 => 1u64 << 63,
            _ => rng.below(1000) as u64,
        };
        // the default threshold (None) in one run in six, and always on the tiny-gain shapes
        let threshold_arg: Option<f64> = if tiny_gain || rng.chance(1, 6) { None } else { Some(threshold) };
        let gamma = if tiny_gain { 1.0 } else { gamma };
        if threshold_arg.is_none() {
            ctx::count("reach:default-threshold");
        }
        let opts = json!({"weighted": weighted, "resolution": gamma, "threshold": threshold_arg, "seed": seed.to_string()});
        ctx::case_desc(json!({"graph": case.json(), "options": opts}));
        let fail = |func: &str, class: &str, detail: Value| {
            ctx::violation(&format!("C13|{}|{}|{}", func, class, kind), &format!("{}: {}", func, class), json!({"detail": detail, "options": opts, "graph": case.json()}));
        };
        // bounded progress on logical steps
        let sweep_budget = 200 + 20 * n as u64;
        crate::ctx::set_budget("louvain_sweep", Some(sweep_budget));
        crate::ctx::set_budget("louvain_level", Some(n as u64 + 8));
        graphrs::verif_hooks::take_ticks("louvain_sweep");
        graphrs::verif_hooks::take_ticks("louvain_level");
        let res = guard("louvain_partitions", || louvain::louvain_partitions(&g, weighted, Some(gamma), threshold_arg, Some(seed)));
        let sweeps = graphrs::verif_hooks::take_ticks("louvain_sweep");
        let levels_ticks = graphrs::verif_hooks::take_ticks("louvain_level");
        ctx::eval(1);
        ctx::maxf("max_sweeps_per_call", sweeps as f64);
        ctx::maxf("max_sweeps_over_budget_ratio", sweeps as f64 / sweep_budget as f64);
        ctx::maxf("max_level_iterations", levels_ticks as f64);
        let levels = match res {
            Err(c) => {
                fail("louvain_partitions", &c.class(), c.json());
                continue;
            }
            Ok(Err(e)) => {
                fail("louvain_partitions", &format!("error:{}", err_name(&e.kind)), json!(null));
                continue;
            }
            Ok(Ok(l)) => l,
        };
        if levels.is_empty() {
            fail("louvain_partitions", "empty-level-list", json!(null));
            continue;
        }
        ctx::maxf("max_levels", levels.len() as f64);
        if levels.len() >= 2 {
            ctx::count("reach:two-or-more-levels");
        }
        if levels.len() >= 3 {
            ctx::count("reach:three-or-more-levels");
        }
        if d.directed {
            ctx::count("reach:directed-run");
        }
        if case.specs.multi {
            ctx::count("reach:multi-edge-run");
        }
        if d.has_self_loop() {
            ctx::count("reach:self-loop-run");
        }
        let mut prev_comm: Option<Vec<usize>> = None;
        let singles: Vec<usize> = (0..n).collect();
        let mut prev_q = if !case.specs.multi { Some(oracle::modularity(&d, &singles, weighted, gamma)) } else { None };
        let mut ok = true;
        for (li, level) in levels.iter().enumerate() {
            // partition into non-empty communities
            let mut comm = vec![usize::MAX; n];
            for (ci, c) in level.iter().enumerate() {
                if c.is_empty() {
                    fail("louvain_partitions", "empty-community", json!({"level": li}));
                    ok = false;
                    break;
                }
                for x in c {
                    match d.idx.get(x) {
                        None => {
                            fail("louvain_partitions", "foreign-node-in-level", json!({"level": li, "node": x}));
                            ok = false;
                        }
                        Some(i) => {
                            if comm[*i] != usize::MAX {
                                fail("louvain_partitions", "node-in-two-communities", json!({"level": li, "node": x}));
                                ok = false;
                            }
                            comm[*i] = ci;
                        }
                    }
                }
            }
            if ok && comm.iter().any(|c| *c == usize::MAX) {
                fail("louvain_partitions", "node-missing-from-level", json!({"level": li}));
                ok = false;
            }
            if !ok {
                break;
            }
            // coarsening of the previous level
            if let Some(pc) = &prev_comm {
                let mut map: HashMap<usize, usize> = HashMap::new();
                for i in 0..n {
                    let e = map.entry(pc[i]).or_insert(comm[i]);
                    if *e != comm[i] {
                        fail("louvain_partitions", "level-not-a-coarsening-of-the-previous-one", json!({"level": li, "node": d.names[i]}));
                        ok = false;
                        break;
                    }
                }
                if !ok {
                    break;
                }
            }
            // modularity never decreases (single-edge graphs)
            if let Some(pq) = prev_q {
                let q = oracle::modularity(&d, &comm, weighted, gamma);
                if q < pq - 1e-9 {
                    fail("louvain_partitions", if li == 0 { "first-level-worse-than-singletons" } else { "modularity-decreased-between-levels" }, json!({"level": li, "previous": pq, "this": q}));
                    ok = false;
                    break;
                }
                prev_q = Some(q);
            }
            prev_comm = Some(comm);
        }
        if !ok {
            continue;
        }
        // louvain_communities returns the last level
        graphrs::verif_hooks::take_ticks("louvain_sweep");
        graphrs::verif_hooks::take_ticks("louvain_level");
        ctx::eval(1);
        match guard("louvain_communities", || louvain::louvain_communities(&g, weighted, Some(gamma), threshold_arg, Some(seed))) {
            Err(c) => fail("louvain_communities", &c.class(), c.json()),
            Ok(Err(e)) => fail("louvain_communities", &format!("error:{}", err_name(&e.kind)), json!(null)),
            Ok(Ok(last)) => {
                if canon_partition(&last) != canon_partition(levels.last().unwrap()) {
                    fail("louvain_communities", "differs-from-last-level-of-louvain_partitions", json!({"got": canon_partition(&last), "last_level": canon_partition(levels.last().unwrap())}));
                }
            }
        }
        // the same graph with integer node names whose numeric and textual orders differ
        if idx % 8 == 5 && n <= 60 {
            c13_integer_names(&d, case.effective_specs(), weighted, gamma, threshold_arg, seed, &kind, &opts);
        }
        crate::ctx::set_budget("louvain_sweep", None);
        crate::ctx::set_budget("louvain_level", None);
        ctx::nontrivial(mix(case.hash(), fnv(opts.to_string().as_bytes())));
        ctx::sample_tagged(&format!("{}-{}", case.specs.kind_label(), case.family), || json!({"graph": case.json(), "options": opts, "levels": levels.len(), "sweeps": sweeps}));
    }
}

// ============================================================================ C18

/// The documented iteration: x0 = 1/n, x <- normalise(x + A^T x), stop at the first k whose
/// L1 change is < n*tol. Returns (k*, iterate, ambiguous).
fn documented_iteration(d: &Dense, weighted: bool, tol: f64, max_steps: usize) -> (Option<usize>, Vec<f64>, bool, Vec<f64>) {
    let n = d.n;
    let mut x = vec![1.0 / n as f64; n];
    let mut ambiguous = false;
    let mut errs = vec![];
    for k in 1..=max_steps {
        let last = x.clone();
        for u in 0..n {
            for v in 0..n {
                if d.mult[u][v] > 0 {
                    let w = if !weighted || d.minw[u][v].is_nan() { 1.0 } else { d.minw[u][v] };
                    x[v] += last[u] * w;
                }
            }
        }
        let mut norm = x.iter().map(|v| v * v).sum::<f64>().sqrt();
        if norm == 0.0 {
            norm = 1.0;
        }
        for v in x.iter_mut() {
            *v /= norm;
        }
        let err: f64 = x.iter().zip(last.iter()).map(|(a, b)| (a - b).abs()).sum();
        errs.push(err);
        let thr = n as f64 * tol;
        // the criterion is ambiguous when the change is within rounding noise of the threshold:
        // the L1 sum of n differences of numbers <= 1 carries an absolute error of a few n*eps
        if (err - thr).abs() <= 1e-6 * thr + 64.0 * n as f64 * f64::EPSILON {
            ambiguous = true;
        }
        if err < thr {
            return (Some(k), x, ambiguous, errs);
        }
    }
    (None, x, ambiguous, errs)
}

pub fn run_c18(a: &Args) {
    let total: u64 = if a.thorough { 300_000 } else { 8_000 };
    for idx in 0..total {
        if !ctx::mine(idx) {
            continue;
        }
        let mut rng = Rng::new(mix(a.seed ^ 0xC18, idx));
        let directed = rng.coin();
        let specs = Specs::kind(directed, false, rng.coin());
        let family = *rng.pick(FAMILIES);
        let n = if idx % 400 == 399 {
            ctx::count("reach:more-than-256-nodes");
            *rng.pick(&[257usize, 300, 513])
        } else {
            rng.range(1, if a.thorough { 40 } else { 25 })
        };
        let family = if n > 256 { *rng.pick(&["gnp_sparse", "tree", "grid"]) } else { family };
        let wclass = *rng.pick(&[WClass::Unweighted, WClass::Exact, WClass::Generic, WClass::ZeroContaining]);
        let case = gen_case(specs, family, n, wclass, &GenOpts { self_loops: rng.coin(), parallel: false, shuffle_edges: true }, &mut rng);
        let g = case.build();
        let d = Dense::from_graph(&g);
        let kind = kind_class(&g);
        let weighted = wclass.weighted() && rng.chance(3, 4);
        let tol = *rng.pick(&[1e-12, 1e-9, 1e-6, 1e-6, 1e-3, 1e-2]);
        let (kstar, _, ambiguous, errs) = documented_iteration(&d, weighted, tol, 1200);
        let mut iters: Vec<u32> = vec![1, 2, 5, 100, 1000];
        if let Some(k) = kstar {
            iters.push(k as u32);
            if k > 1 {
                iters.push(k as u32 - 1);
            }
            iters.push(k as u32 + 1);
        }
        let frob: f64 = {
            let mut s = 0.0;
            for u in 0..n {
                for v in 0..n {
                    let mut m = if u == v { 1.0 } else { 0.0 };
                    if d.mult[v][u] > 0 {
                        m += if !weighted || d.minw[v][u].is_nan() { 1.0 } else { d.minw[v][u] };
                    }
                    s += m * m;
                }
            }
            s.sqrt()
        };
        for max_iter in iters {
            let opts = json!({"weighted": weighted, "max_iter": max_iter, "tolerance": tol});
            ctx::case_desc(json!({"graph": case.json(), "options": opts}));
            let fail = |class: &str, detail: Value| {
                ctx::violation(&format!("C18|eigenvector_centrality|{}|{}", class, kind), &format!("eigenvector_centrality: {}", class), json!({"detail": detail, "options": opts, "graph": case.json()}));
            };
            ctx::eval(1);
            let res = guard("eigenvector_centrality", || eigenvector::eigenvector_centrality(&g, weighted, Some(max_iter), Some(tol)));
            match res {
                Err(c) => fail(&c.class(), c.json()),
                Ok(Err(e)) => {
                    if !matches!(e.kind, ErrorKind::PowerIterationFailedConvergence) {
                        fail(&format!("error:{}", err_name(&e.kind)), json!(null));
                    } else if let Some(k) = kstar {
                        if !ambiguous && (max_iter as usize) >= k {
                            fail("convergence-error-although-the-documented-iteration-converged", json!({"converges_at_iteration": k}));
                        } else {
                            ctx::count("reach:exhausted-max_iter");
                        }
                    } else {
                        ctx::count("reach:exhausted-max_iter");
                    }
                }
                Ok(Ok(x)) => {
                    ctx::count("reach:converged");
                    if x.len() != n || d.names.iter().any(|k| !x.contains_key(k)) {
                        fail("entry-count", json!({"got": x.len(), "n": n}));
                        continue;
                    }
                    let v: Vec<f64> = d.names.iter().map(|k| x[k]).collect();
                    if v.iter().any(|e| !(*e >= 0.0)) {
                        fail("negative-or-nan-entry", json!({"vector": v}));
                        continue;
                    }
                    let norm = v.iter().map(|e| e * e).sum::<f64>().sqrt();
                    // an all-zero vector cannot be normalised; the documented iteration never produces one
                    if (norm - 1.0).abs() > 1e-9 {
                        fail("norm-not-1", json!({"norm": norm}));
                        continue;
                    }
                    // one further documented step
                    let mut y = v.clone();
                    for u in 0..n {
                        for w in 0..n {
                            if d.mult[u][w] > 0 {
                                let wt = if !weighted || d.minw[u][w].is_nan() { 1.0 } else { d.minw[u][w] };
                                y[w] += v[u] * wt;
                            }
                        }
                    }
                    let ny = y.iter().map(|e| e * e).sum::<f64>().sqrt();
                    let ny = if ny == 0.0 { 1.0 } else { ny };
                    let step: f64 = y.iter().zip(v.iter()).map(|(p, q)| (p / ny - q).abs()).sum();
                    let bound = 2.0 * (n as f64).sqrt() * frob * (n as f64 * tol) + 1e-9;
                    ctx::maxf("max_step_over_bound_ratio", step / bound);
                    if step > bound {
                        fail("not-an-approximate-fixed-point", json!({"l1_change_of_one_more_step": step, "bound": bound}));
                        continue;
                    }
                    // "never a non-converged vector": the documented iteration must have met its
                    // criterion within max_iter
                    if !ambiguous {
                        match kstar {
                            Some(k) if (max_iter as usize) >= k => {}
                            _ => {
                                let e = errs.get(max_iter as usize - 1).copied();
                                fail("vector-returned-before-the-documented-iteration-converged", json!({"converges_at_iteration": kstar, "l1_change_at_max_iter": e, "threshold": n as f64 * tol}));
                            }
                        }
                    }
                }
            }
        }
        if n >= 2 && !d.edges.is_empty() {
            ctx::nontrivial(mix(case.hash(), (weighted as u64) ^ tol.to_bits()));
            ctx::sample_tagged(&format!("{}-{:?}", case.specs.kind_label(), case.wclass), || json!({"graph": case.json(), "weighted": weighted, "tolerance": tol, "converges_at_iteration": kstar}));
        }
        if d.has_self_loop() {
            ctx::count("reach:self-loops");
        }
    }
}

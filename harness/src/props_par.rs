//! C07: parallel execution is unobservable. Differential over rayon pool sizes, injected
//! scheduling delays, nested and concurrent use; the par_item hook shows which schedules ran.

use crate::ctx::{self, guard, Args};
use crate::gen::*;
use crate::hist::kind_class;
use crate::model::Specs;
use crate::rng::{fnv, mix, Rng};
use graphrs::algorithms::centrality::{betweenness, closeness};
use graphrs::algorithms::shortest_path::dijkstra;
use graphrs::verif_hooks as hooks;
use rayon::prelude::*;
use serde_json::{json, Value};
use std::collections::{BTreeMap, BTreeSet, HashMap};

/// canonical, bit-exact rendering of every result of the five functions
pub fn run_functions(g: &GS, names: &[String], weighted: bool, pick: usize) -> Vec<(&'static str, String)> {
    let mut out = vec![];
    let target = names[pick % names.len()].clone();
    let through = names[(pick * 7 + 3) % names.len()].clone();
    let sp = |m: HashMap<String, HashMap<String, graphrs::algorithms::shortest_path::ShortestPathInfo<String>>>| -> String {
        let mut b: BTreeMap<(String, String), (u64, Vec<Vec<String>>)> = BTreeMap::new();
        for (s, inner) in m {
            for (t, info) in inner {
                let mut p = info.paths;
                p.sort();
                b.insert((s.clone(), t), (info.distance.to_bits(), p));
            }
        }
        format!("{:?}", b)
    };
    let cm = |m: HashMap<String, f64>| -> String { format!("{:?}", m.into_iter().map(|(k, v)| (k, v.to_bits())).collect::<BTreeMap<_, _>>()) };
    out.push(("all_pairs", match dijkstra::all_pairs(g, weighted, None, None, false, true) {
        Ok(m) => sp(m),
        Err(e) => format!("Err({:?})", e.kind),
    }));
    out.push(("all_pairs(target)", match dijkstra::all_pairs(g, weighted, Some(target.clone()), None, false, true) {
        Ok(m) => sp(m),
        Err(e) => format!("Err({:?})", e.kind),
    }));
    out.push(("all_pairs(cutoff,first_only)", match dijkstra::all_pairs(g, weighted, None, Some(3.0), true, true) {
        Ok(m) => sp(m),
        Err(e) => format!("Err({:?})", e.kind),
    }));
    out.push(("all_pairs(cutoff,distances)", match dijkstra::all_pairs(g, weighted, None, Some(2.5), false, false) {
        Ok(m) => sp(m),
        Err(e) => format!("Err({:?})", e.kind),
    }));
    out.push(("all_pairs(distances)", match dijkstra::all_pairs(g, weighted, None, None, false, false) {
        Ok(m) => sp(m),
        Err(e) => format!("Err({:?})", e.kind),
    }));
    let sources: Vec<String> = names.iter().enumerate().filter(|(i, _)| i % 2 == pick % 2).map(|(_, n)| n.clone()).collect();
    out.push(("multi_source", match dijkstra::multi_source(g, weighted, sources.clone(), None, None, false, true) {
        Ok(m) => sp(m),
        Err(e) => format!("Err({:?})", e.kind),
    }));
    if names.len() >= 2 {
        // exactly n entries, one node left out and another listed twice - the repeat sits in the
        // middle, with further sources after it
        let mut listed: Vec<String> = names.to_vec();
        let mid = listed.len() / 2;
        listed[mid] = listed[0].clone();
        out.push(("multi_source(n entries, one repeated)", match dijkstra::multi_source(g, weighted, listed, None, None, false, true) {
            Ok(m) => sp(m),
            Err(e) => format!("Err({:?})", e.kind),
        }));
    }
    out.push(("multi_source(target)", match dijkstra::multi_source(g, weighted, sources, Some(target), None, false, true) {
        Ok(m) => sp(m),
        Err(e) => format!("Err({:?})", e.kind),
    }));
    if weighted {
        // also through the tail of a zero-weight edge, when there is one
        let mut tails: Vec<String> = g.get_all_edges().iter().filter(|e| e.weight == 0.0 && e.u != e.v).map(|e| e.u.clone()).collect();
        tails.sort();
        tails.dedup();
        if let Some(t0) = tails.first() {
            out.push(("get_all_shortest_paths_involving(tail of a zero-weight edge)", {
                let v = dijkstra::get_all_shortest_paths_involving(g, t0.clone(), weighted);
                let mut b: Vec<(u64, Vec<Vec<String>>)> = v
                    .into_iter()
                    .map(|i| {
                        let mut p = i.paths;
                        p.sort();
                        (i.distance.to_bits(), p)
                    })
                    .collect();
                b.sort();
                format!("{:?}", b)
            }));
        }
    }
    out.push(("get_all_shortest_paths_involving", {
        let v = dijkstra::get_all_shortest_paths_involving(g, through, weighted);
        let mut b: Vec<(u64, Vec<Vec<String>>)> = v
            .into_iter()
            .map(|i| {
                let mut p = i.paths;
                p.sort();
                (i.distance.to_bits(), p)
            })
            .collect();
        b.sort();
        format!("{:?}", b)
    }));
    for normalized in [false, true] {
        out.push((if normalized { "betweenness_centrality(normalized)" } else { "betweenness_centrality" }, match betweenness::betweenness_centrality(g, weighted, normalized) {
            Ok(m) => cm(m),
            Err(e) => format!("Err({:?})", e.kind),
        }));
    }
    for wf in [false, true] {
        out.push((if wf { "closeness_centrality(wf)" } else { "closeness_centrality" }, match closeness::closeness_centrality(g, weighted, wf) {
            Ok(m) => cm(m),
            Err(e) => format!("Err({:?})", e.kind),
        }));
    }
    out
}

fn c07_case(rng: &mut Rng, thorough: bool, small: bool, idx: u64) -> GCase {
    let specs = Specs::kind(rng.coin(), rng.chance(1, 4), rng.chance(1, 4));
    if !small && (idx < 6 || rng.chance(1, 4)) {
        // shapes on thresholds: a hub with exactly 63/64/65 successors, node counts around 256,
        // or barely above the 20-node parallel threshold (fewer nodes than worker threads)
        let wclass = *rng.pick(&[WClass::Generic, WClass::Unweighted]);
        return match if idx < 6 { (idx % 3) as usize } else { rng.below(3) } {
            0 => {
                let deg = if idx < 6 { 64 } else { *rng.pick(&[63usize, 64, 65]) };
                let n = deg + 1 + rng.below(6);
                let names = scrambled_names(n, rng);
                let hub = rng.below(n);
                let mut edges = vec![];
                let mut k = 0;
                for v in 0..n {
                    if v != hub && k < deg {
                        edges.push((hub, v, wclass.draw(rng)));
                        k += 1;
                    }
                }
                for _ in 0..20 {
                    let (a, b) = (rng.below(n), rng.below(n));
                    if a != b && a != hub && !edges.iter().any(|e| (e.0 == a && e.1 == b) || (e.0 == b && e.1 == a)) {
                        edges.push((a, b, wclass.draw(rng)));
                    }
                }
                rng.shuffle(&mut edges);
                GCase { specs: Specs::kind(specs.directed, false, false), names, edges, family: "hub-with-64-successors", wclass }
            }
            1 => {
                let n = *rng.pick(&[255usize, 256, 257, 258, 300]);
                let fam: &'static str = *rng.pick(&["gnp_sparse", "tree", "components"]);
                gen_case(specs, fam, n, wclass, &GenOpts { self_loops: false, parallel: false, shuffle_edges: true }, rng)
            }
            _ => {
                let n = rng.range(21, 24);
                gen_case(specs, "gnp_mid", n, wclass, &GenOpts { self_loops: true, parallel: true, shuffle_edges: true }, rng)
            }
        };
    }
    let n = if small { rng.range(21, 30) } else { rng.range(21, if thorough { 150 } else { 80 }) };
    let fam: &'static str = *rng.pick(&["gnp_sparse", "gnp_sparse", "gnp_mid", "grid", "tree", "components", "nested_scc", "ladder", "barbell"]);
    let fam = if n > 60 && (fam == "gnp_mid" || fam == "grid" || fam == "barbell" || fam == "ladder") { "gnp_sparse" } else { fam };
    // generic, non-dyadic weights: an order-dependent float reduction changes low bits
    let wclass = *rng.pick(&[WClass::Generic, WClass::Generic, WClass::Unweighted, WClass::Exact]);
    let mut case = gen_case(specs, fam, n, wclass, &GenOpts { self_loops: true, parallel: true, shuffle_edges: true }, rng);
    if wclass.weighted() && !case.edges.is_empty() && rng.chance(1, 3) {
        // a few zero-weight edges: distances that do not grow along an edge (few enough for the
        // number of tied paths to stay small)
        for _ in 0..rng.range(1, 3) {
            let k = rng.below(case.edges.len());
            case.edges[k].2 = 0.0;
        }
        ctx::count("reach:graph-with-zero-weight-edges");
    }
    case
}

fn schedule_signatures(log: &[hooks::ParEvent]) -> (u64, u64, usize) {
    // (item -> worker assignment, start order, number of distinct workers)
    let mut assign: Vec<(&'static str, usize, Option<usize>)> = log.iter().map(|e| (e.tag, e.item, e.worker)).collect();
    assign.sort();
    let mut order: Vec<(u64, &'static str, usize)> = log.iter().map(|e| (e.seq, e.tag, e.item)).collect();
    order.sort();
    let workers: BTreeSet<Option<usize>> = log.iter().map(|e| e.worker).collect();
    (
        fnv(format!("{:?}", assign).as_bytes()),
        fnv(format!("{:?}", order.iter().map(|x| (x.1, x.2)).collect::<Vec<_>>()).as_bytes()),
        workers.len(),
    )
}

pub fn run_c07(a: &Args) {
    let light = a.extra.iter().any(|e| e == "light");
    let total: u64 = if light { 4 } else if a.thorough { 64 } else { 32 };
    // 32 and 48 workers: more threads than some of the graphs have nodes
    let pool_sizes: Vec<usize> = if a.thorough && !light { (1..=16).chain([32, 48]).collect() } else if light { vec![2, 3, 4, 8, 16] } else { vec![2, 3, 4, 8, 16, 32, 48] };
    let reps = if light { 2 } else if a.thorough { 12 } else { 4 };
    let mut pools: BTreeMap<usize, rayon::ThreadPool> = BTreeMap::new();
    for k in pool_sizes.iter().chain([1usize].iter()) {
        pools.entry(*k).or_insert_with(|| rayon::ThreadPoolBuilder::new().num_threads(*k).build().expect("pool"));
    }
    let mut assignments: BTreeMap<String, BTreeSet<u64>> = BTreeMap::new();
    let mut orders: BTreeMap<String, BTreeSet<u64>> = BTreeMap::new();
    for idx in 0..total {
        if !ctx::mine(idx) {
            continue;
        }
        let mut rng = Rng::new(mix(a.seed ^ 0xC07, idx));
        let case = c07_case(&mut rng, a.thorough, light, idx);
        ctx::case_desc(case.json());
        let g = case.build();
        let kind = kind_class(&g);
        let names: Vec<String> = g.get_all_nodes().iter().map(|n| n.name.clone()).collect();
        let weighted = case.wclass.weighted();
        let pick = rng.below(names.len());
        let fail = |func: &str, class: &str, detail: Value| {
            ctx::violation(&format!("C07|{}|{}|{}", func, class, kind), &format!("{}: {}", func, class), json!({"detail": detail, "weighted": weighted, "graph": case.json()}));
        };
        // reference: the code's own serial branch (1-thread pool)
        hooks::par_set_delay(0, 0);
        hooks::par_log_start(false);
        let reference = match guard("serial-reference", || pools[&1].install(|| run_functions(&g, &names, weighted, pick))) {
            Ok(r) => r,
            Err(c) => {
                fail("serial-reference", &c.class(), c.json());
                continue;
            }
        };
        ctx::eval(reference.len() as u64);
        let compare = |label: &str, got: &[(&'static str, String)], extra: Value| -> bool {
            let mut ok = true;
            for ((f, s), (_, r)) in got.iter().zip(reference.iter()) {
                if s != r {
                    ok = false;
                    // find the first differing position for the witness
                    let pos = s.bytes().zip(r.bytes()).position(|(x, y)| x != y).unwrap_or(s.len().min(r.len()));
                    let lo = pos.saturating_sub(80);
                    fail(
                        f.split('(').next().unwrap_or(f),
                        &format!("differs-from-single-threaded:{}", label),
                        json!({"variant": f, "where": extra, "single_threaded": r.chars().skip(lo).take(200).collect::<String>(), "this": s.chars().skip(lo).take(200).collect::<String>()}),
                    );
                }
            }
            ok
        };
        // candidate pools x repetitions with seeded delays at the start of every work item
        for &k in &pool_sizes {
            for rep in 0..reps {
                let delay_seed = mix(a.seed, mix(idx, (k * 1000 + rep) as u64));
                hooks::par_set_delay(delay_seed, if rep == 0 { 0 } else { 40 + 60 * rep as u64 });
                hooks::par_log_start(true);
                let r = guard("pool-run", || pools[&k].install(|| run_functions(&g, &names, weighted, pick)));
                let log = hooks::par_log_take();
                hooks::par_log_start(false);
                hooks::par_set_delay(0, 0);
                ctx::eval(reference.len() as u64);
                match r {
                    Err(c) => fail("pool-run", &c.class(), json!({"threads": k, "caught": c.json()})),
                    Ok(got) => {
                        compare("caller-installed-pool", &got, json!({"threads": k, "repetition": rep}));
                    }
                }
                if k > 1 {
                    if log.is_empty() {
                        ctx::count("reach:parallel-branch-not-taken");
                    } else {
                        ctx::count("reach:parallel-work-items-observed");
                        ctx::count_n("par_items_logged", log.len() as u64);
                    }
                    let (asg, ord, workers) = schedule_signatures(&log);
                    assignments.entry(format!("k={}", k)).or_default().insert(asg);
                    orders.entry(format!("k={}", k)).or_default().insert(ord);
                    ctx::maxf(&format!("max_distinct_workers_seen:k={}", k), workers as f64);
                }
            }
        }
        // the global pool (whatever size this process has)
        ctx::eval(reference.len() as u64);
        if let Ok(got) = guard("global-pool", || run_functions(&g, &names, weighted, pick)) {
            compare("global-pool", &got, json!({"threads": rayon::current_num_threads()}));
            ctx::count("reach:global-pool-run");
        }
        // called from inside the caller's own parallel iterator
        hooks::par_set_delay(mix(a.seed, idx), 120);
        let nested = guard("nested", || pools[&4.min(*pool_sizes.last().unwrap())].install(|| (0..4usize).into_par_iter().map(|_| run_functions(&g, &names, weighted, pick)).collect::<Vec<_>>()));
        hooks::par_set_delay(0, 0);
        match nested {
            Err(c) => fail("nested-call", &c.class(), c.json()),
            Ok(all) => {
                for got in &all {
                    ctx::eval(reference.len() as u64);
                    compare("nested-in-callers-par_iter", got, json!(null));
                }
                ctx::count("reach:nested-call");
            }
        }
        // the first queries a graph ever receives, made by several threads at once: a second copy
        // of the graph is built without any read-only call, and the threads start together
        {
            let cold = case.build_cold();
            let readers = if light { 3 } else { 8 };
            let barrier = std::sync::Barrier::new(readers);
            let conc = guard("concurrent-first-use", || {
                std::thread::scope(|s| {
                    let hs: Vec<_> = (0..readers)
                        .map(|_| {
                            s.spawn(|| {
                                barrier.wait();
                                run_functions(&cold, &names, weighted, pick)
                            })
                        })
                        .collect();
                    hs.into_iter().map(|h| h.join()).collect::<Vec<_>>()
                })
            });
            match conc {
                Err(c) => fail("concurrent-first-use", &c.class(), c.json()),
                Ok(all) => {
                    for r in all {
                        match r {
                            Ok(got) => {
                                ctx::eval(reference.len() as u64);
                                compare("concurrent-first-use-of-a-fresh-graph", &got, json!({"readers": readers}));
                            }
                            Err(_) => fail("concurrent-first-use", "reader-thread-panicked", json!(null)),
                        }
                    }
                    ctx::count("reach:concurrent-first-use-of-a-fresh-graph");
                }
            }
        }
        // concurrent read-only use of one graph from several plain threads
        let readers = if light { 3 } else { 6 };
        hooks::par_set_delay(mix(a.seed ^ 0x77, idx), 80);
        let conc = guard("concurrent-readers", || {
            std::thread::scope(|s| {
                let hs: Vec<_> = (0..readers).map(|_| s.spawn(|| run_functions(&g, &names, weighted, pick))).collect();
                hs.into_iter().map(|h| h.join()).collect::<Vec<_>>()
            })
        });
        hooks::par_set_delay(0, 0);
        match conc {
            Err(c) => fail("concurrent-readers", &c.class(), c.json()),
            Ok(all) => {
                for r in all {
                    match r {
                        Ok(got) => {
                            ctx::eval(reference.len() as u64);
                            compare("concurrent-readers", &got, json!({"readers": readers}));
                        }
                        Err(_) => fail("concurrent-readers", "reader-thread-panicked", json!(null)),
                    }
                }
                ctx::count("reach:concurrent-readers");
            }
        }
        ctx::nontrivial(case.hash());
        ctx::sample_tagged(&format!("{}-{:?}", case.specs.kind_label(), case.wclass), || json!({"n": case.n(), "family": case.family, "kind": case.specs.kind_label(), "wclass": format!("{:?}", case.wclass), "edges": case.edges.len()}));
    }
    // a large graph (tens of thousands of edges) whose very first queries come from eight threads
    // released together: anything computed lazily over the whole edge list is computed while
    // the other threads are already asking
    for k in 0..(if light { 1u64 } else if a.thorough { 4 } else { 2 }) {
        if !ctx::mine(total + k) {
            continue;
        }
        let mut rng = Rng::new(mix(a.seed ^ 0xC07_C01D, k));
        let n = 300 + rng.below(200);
        let m = if light { 20_000 } else { 60_000 };
        let directed = k % 2 == 0;
        let names: Vec<String> = (0..n).map(|i| format!("c{:03}", i)).collect();
        let edges: Vec<(usize, usize, f64)> = (0..m).map(|_| (rng.below(n), rng.below(n), 0.5 + rng.f64())).filter(|e| e.0 != e.1).collect();
        ctx::case_desc(json!({"family": "large-cold-graph", "n": n, "edges": edges.len(), "directed": directed}));
        let reps = if light { 3 } else if a.thorough { 60 } else { 12 };
        let kind = if directed { "directed-multi" } else { "undirected-multi" };
        for rep in 0..reps {
            let mut g: GS = graphrs::Graph::new(Specs::kind(directed, true, false).to_real());
            for nm in &names {
                g.add_node(graphrs::Node::from_name(nm.clone()));
            }
            for (u, v, w) in &edges {
                g.add_edge(std::sync::Arc::new(graphrs::Edge { u: names[*u].clone(), v: names[*v].clone(), attributes: None, weight: *w })).expect("multi-edge specs accept every edge");
            }
            let readers = 8usize;
            let barrier = std::sync::Barrier::new(readers);
            let srcs: Vec<String> = (0..readers).map(|i| names[(i * 37 + rep) % n].clone()).collect();
            let res = guard("concurrent-first-use", || {
                std::thread::scope(|s| {
                    let hs: Vec<_> = (0..readers)
                        .map(|i| {
                            let (g, barrier, src) = (&g, &barrier, srcs[i].clone());
                            s.spawn(move || {
                                barrier.wait();
                                let a = dijkstra::single_source(g, true, src.clone(), None, None, true, false).map(|m| m.len()).map_err(|e| format!("{:?}", e.kind));
                                let b = dijkstra::multi_source(g, true, vec![src], None, Some(1.0), false, false).map(|m| m.values().map(|r| r.len()).sum::<usize>()).unwrap_or(usize::MAX);
                                (a, b)
                            })
                        })
                        .collect();
                    hs.into_iter().map(|h| h.join()).collect::<Vec<_>>()
                })
            });
            ctx::eval(readers as u64 * 2);
            match res {
                Err(c) => ctx::violation(&format!("C07|concurrent-first-use|{}|{}", c.class(), kind), "concurrent first use panicked", c.json()),
                Ok(all) => {
                    for (i, r) in all.into_iter().enumerate() {
                        // the same two calls afterwards, alone
                        let want_a = dijkstra::single_source(&g, true, srcs[i].clone(), None, None, true, false).map(|m| m.len()).map_err(|e| format!("{:?}", e.kind));
                        let want_b = dijkstra::multi_source(&g, true, vec![srcs[i].clone()], None, Some(1.0), false, false).map(|m| m.values().map(|r| r.len()).sum::<usize>()).unwrap_or(usize::MAX);
                        match r {
                            Ok((a1, b1)) if a1 == want_a && b1 == want_b => {}
                            Ok((a1, b1)) => {
                                ctx::violation(
                                    &format!("C07|single_source|differs-from-single-threaded:concurrent-first-use-of-a-fresh-graph|{}", kind),
                                    "the first queries on a fresh graph, made by several threads at once, differ from the same queries made alone",
                                    json!({"source": srcs[i], "concurrent": format!("{:?}", (a1, b1)), "alone": format!("{:?}", (&want_a, want_b)), "repetition": rep, "n": n, "edges": edges.len()}),
                                );
                            }
                            Err(_) => ctx::violation(&format!("C07|concurrent-first-use|reader-thread-panicked|{}", kind), "reader thread panicked", json!(null)),
                        }
                    }
                }
            }
            ctx::count("reach:concurrent-first-use-of-a-large-fresh-graph");
        }
        ctx::nontrivial(mix(0xC01D, k));
    }
    let mut sched = BTreeMap::new();
    for (k, v) in &assignments {
        sched.insert(k.clone(), json!({"distinct_item_to_worker_assignments": v.len(), "distinct_start_orders": orders.get(k).map(|o| o.len()).unwrap_or(0)}));
        ctx::maxf(&format!("distinct_assignments:{}", k), v.len() as f64);
        ctx::maxf(&format!("distinct_start_orders:{}", k), orders.get(k).map(|o| o.len()).unwrap_or(0) as f64);
        if v.len() >= 2 {
            ctx::count("reach:two-or-more-distinct-schedules-for-a-pool-size");
        }
    }
    ctx::note("schedules_observed_in_this_shard", json!(sched));
}

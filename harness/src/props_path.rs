//! Shortest-path family: C04 (Dijkstra vs definition), C05 (betweenness), C06 (closeness),
//! C08 (option metamorphics).

use crate::ctx::{self, guard, Args};
use crate::gen::*;
use crate::hist::kind_class;
use crate::model::{err_name, Specs};
use crate::oracle::{self, Dense, INF};
use crate::rng::{mix, Rng};
use graphrs::algorithms::centrality::{betweenness, closeness};
use graphrs::algorithms::shortest_path::{dijkstra, ShortestPathInfo};
use serde_json::{json, Value};
use std::collections::{BTreeSet, HashMap};

pub fn approx(a: f64, b: f64) -> bool {
    if a.is_nan() || b.is_nan() {
        return false;
    }
    a == b || (a - b).abs() <= 1e-9 * 1.0f64.max(a.abs()).max(b.abs())
}

fn tol_for(w: WClass, weighted: bool) -> f64 {
    if weighted && w == WClass::Generic {
        1e-9
    } else {
        0.0
    }
}

/// distances and path lengths: purely relative (weights may be of any magnitude)
fn deq(a: f64, b: f64, tol: f64) -> bool {
    if tol == 0.0 {
        a == b
    } else {
        a == b || (a - b).abs() <= 1e-9 * a.abs().max(b.abs())
    }
}

struct PathCtx<'a> {
    prop: &'static str,
    g: &'a GS,
    d: &'a Dense,
    case: &'a GCase,
    weighted: bool,
    tol: f64,
    positive: bool,
    kind: String,
    failed: bool,
}

impl<'a> PathCtx<'a> {
    fn fail(&mut self, func: &str, class: &str, detail: Value) {
        self.failed = true;
        ctx::violation(
            &format!("{}|{}|{}|{}", self.prop, func, class, self.kind),
            &format!("{}: {}", func, class),
            json!({"detail": detail, "weighted": self.weighted, "graph": self.case.json()}),
        );
    }

    /// Checks the entry of one target (distance, validity and completeness of its paths).
    fn check_target_entry(&mut self, func: &'static str, s: usize, t: usize, dist: &[f64], got: Option<&ShortestPathInfo<String>>) {
        let d = self.d;
        match (got, dist[t] == INF) {
            (None, true) => {}
            (None, false) => self.fail(func, "reachable-target-missing", json!({"source": d.names[s], "target": d.names[t], "want_distance": dist[t]})),
            (Some(_), true) => self.fail(func, "unreachable-target-reported", json!({"source": d.names[s], "target": d.names[t]})),
            (Some(info), false) => {
                if !deq(info.distance, dist[t], self.tol) {
                    self.fail(func, "wrong-distance", json!({"source": d.names[s], "target": d.names[t], "got": info.distance, "want": dist[t]}));
                    return;
                }
                if self.positive && d.n <= 10 {
                    let certified = self.tol == 0.0 || oracle::min_relative_gap(d, dist, self.weighted, self.tol) > 1e-6;
                    if certified {
                        if let Some(all) = oracle::all_shortest_paths(d, s, t, dist, self.weighted, self.tol, 4000) {
                            let mut gotp: Vec<Vec<usize>> = info.paths.iter().map(|p| p.iter().map(|x| d.idx.get(x).copied().unwrap_or(usize::MAX)).collect()).collect();
                            gotp.sort();
                            if gotp != all {
                                self.fail(func, "path-set-differs-from-all-shortest-paths", json!({"source": d.names[s], "target": d.names[t], "got": info.paths}));
                            }
                        }
                    }
                }
            }
        }
    }

    /// Checks one source's result map against the oracle.
    /// `path_mode`: 0 = no paths expected, 1 = exactly one path, 2 = all paths
    fn check_source(&mut self, func: &'static str, s: usize, map: &HashMap<String, ShortestPathInfo<String>>, path_mode: u8) {
        let d = self.d;
        let dist = oracle::sssp(d, s, self.weighted);
        ctx::eval(1);
        // keys = reachable set
        for t in 0..d.n {
            let got = map.get(&d.names[t]);
            match (got, dist[t] == INF) {
                (None, true) => continue,
                (None, false) => {
                    self.fail(func, "reachable-node-missing", json!({"source": d.names[s], "target": d.names[t], "want_distance": dist[t]}));
                    return;
                }
                (Some(_), true) => {
                    self.fail(func, "unreachable-node-reported", json!({"source": d.names[s], "target": d.names[t]}));
                    return;
                }
                (Some(info), false) => {
                    if !deq(info.distance, dist[t], self.tol) {
                        self.fail(func, "wrong-distance", json!({"source": d.names[s], "target": d.names[t], "got": info.distance, "want": dist[t]}));
                        return;
                    }
                    if path_mode == 0 {
                        if !info.paths.is_empty() {
                            self.fail(func, "paths-returned-with-with_paths-false", json!({"source": d.names[s], "target": d.names[t]}));
                            return;
                        }
                        continue;
                    }
                    // path validity
                    let mut as_idx: Vec<Vec<usize>> = vec![];
                    for p in &info.paths {
                        let ix: Option<Vec<usize>> = p.iter().map(|x| d.idx.get(x).copied()).collect();
                        let ix = match ix {
                            Some(v) => v,
                            None => {
                                self.fail(func, "path-names-unknown-node", json!({"path": p}));
                                return;
                            }
                        };
                        if ix.first() != Some(&s) || ix.last() != Some(&t) {
                            self.fail(func, "path-endpoints-wrong", json!({"source": d.names[s], "target": d.names[t], "path": p}));
                            return;
                        }
                        let mut len = 0.0;
                        for w in ix.windows(2) {
                            let c = d.cost(w[0], w[1], self.weighted);
                            if c == INF {
                                self.fail(func, "path-uses-non-edge", json!({"path": p, "from": d.names[w[0]], "to": d.names[w[1]]}));
                                return;
                            }
                            len += c;
                        }
                        if !deq(len, info.distance, if self.tol == 0.0 { 0.0 } else { 1e-9 }) {
                            self.fail(func, "path-weight-differs-from-distance", json!({"path": p, "path_weight": len, "distance": info.distance}));
                            return;
                        }
                        as_idx.push(ix);
                    }
                    if path_mode == 1 {
                        if as_idx.len() != 1 {
                            self.fail(func, "first_only-did-not-return-exactly-one-path", json!({"source": d.names[s], "target": d.names[t], "paths": info.paths}));
                            return;
                        }
                    }
                    if self.positive {
                        let mut sorted = as_idx.clone();
                        sorted.sort();
                        let before = sorted.len();
                        sorted.dedup();
                        if sorted.len() != before {
                            self.fail(func, "duplicate-path", json!({"source": d.names[s], "target": d.names[t], "paths": info.paths}));
                            return;
                        }
                        if path_mode == 2 {
                            // completeness: the set of all shortest paths
                            let certified = self.tol == 0.0 || oracle::min_relative_gap(d, &dist, self.weighted, self.tol) > 1e-6;
                            if certified {
                                if d.n <= 10 {
                                    if let Some(all) = oracle::all_shortest_paths(d, s, t, &dist, self.weighted, self.tol, 4000) {
                                        if all != sorted {
                                            self.fail(func, "path-set-differs-from-all-shortest-paths", json!({"source": d.names[s], "target": d.names[t], "got": info.paths, "want": all.iter().map(|p| p.iter().map(|i| d.names[*i].clone()).collect::<Vec<_>>()).collect::<Vec<_>>()}));
                                            return;
                                        }
                                        if all.len() >= 2 {
                                            ctx::count("reach:target-with-several-shortest-paths");
                                        }
                                    }
                                } else {
                                    let sigma = oracle::path_counts(d, s, &dist, self.weighted, self.tol);
                                    if sigma[t] <= 2000.0 && sigma[t] != sorted.len() as f64 {
                                        self.fail(func, "number-of-paths-differs-from-number-of-shortest-paths", json!({"source": d.names[s], "target": d.names[t], "got": sorted.len(), "want": sigma[t]}));
                                        return;
                                    }
                                    if sigma[t] >= 2.0 {
                                        ctx::count("reach:target-with-several-shortest-paths");
                                    }
                                }
                            } else {
                                ctx::count("skipped:near-tie-graph-path-set-not-compared");
                            }
                        }
                    }
                }
            }
        }
        // no foreign keys
        if map.len() != dist.iter().filter(|x| **x != INF).count() {
            self.fail(func, "extra-entries", json!({"source": d.names[s], "got_entries": map.len()}));
        }
    }
}

fn reach_counters(case: &GCase, d: &Dense) {
    if case.n() > 20 {
        ctx::count("reach:n>20");
    }
    if d.has_self_loop() {
        ctx::count("reach:self-loops");
    }
    if d.edges.len() > (0..d.n).map(|u| (0..d.n).filter(|v| d.mult[u][*v] > 0 && (d.directed || u <= *v)).count()).sum::<usize>() {
        ctx::count("reach:parallel-edges");
    }
}

/// the sources x entry points of C04 for one (graph, weighted) pair
fn c04_graph(prop: &'static str, case: &GCase, g: &GS, d: &Dense, weighted: bool, rng: &mut Rng, full: bool, all_paths: bool) -> bool {
    let positive = !weighted || case.wclass != WClass::ZeroContaining;
    let mut pc = PathCtx { prop, g, d, case, weighted, tol: tol_for(case.wclass, weighted), positive, kind: kind_class(g), failed: false };
    let n = d.n;
    let sources: Vec<usize> = if full || n <= 12 { (0..n).collect() } else { (0..6).map(|_| rng.below(n)).collect() };
    for &s in &sources {
        // targeted searches: the target's own entry must be the full answer; they also act as
        // hostile predecessors of the unrestricted calls below (early exit, cutoff pruning)
        if n > 0 {
            let dist = oracle::sssp(d, s, weighted);
            for _ in 0..2 {
                let t = rng.below(n);
                let src = d.names[s].clone();
                let tn = d.names[t].clone();
                let cutoff = if rng.chance(1, 3) && dist[t] != INF { Some(dist[t]) } else { None };
                match guard("dijkstra::single_source", || dijkstra::single_source(g, weighted, src.clone(), Some(tn.clone()), cutoff, !all_paths, true)) {
                    Err(c) => pc.fail("single_source", &c.class(), c.json()),
                    Ok(Err(e)) => pc.fail("single_source", &format!("error:{}", err_name(&e.kind)), json!({"source": src, "target": tn})),
                    Ok(Ok(map)) => {
                        ctx::eval(1);
                        ctx::count("reach:targeted-search");
                        // restrict the comparison to the target's entry
                        let mut only: HashMap<String, ShortestPathInfo<String>> = HashMap::new();
                        for (k, v) in map {
                            if k == tn {
                                only.insert(k, v);
                            }
                        }
                        pc.check_target_entry("single_source(target)", s, t, &dist, only.get(&tn));
                    }
                }
                if pc.failed {
                    return false;
                }
            }
        }
        for (first_only, with_paths) in [(false, true), (true, true), (false, false)] {
            if !all_paths && !first_only && with_paths {
                continue; // the number of shortest paths can be exponential in n (grids)
            }
            let src = d.names[s].clone();
            match guard("dijkstra::single_source", || dijkstra::single_source(g, weighted, src.clone(), None, None, first_only, with_paths)) {
                Err(c) => pc.fail("single_source", &c.class(), c.json()),
                Ok(Err(e)) => pc.fail("single_source", &format!("error:{}", err_name(&e.kind)), json!({"source": src})),
                Ok(Ok(map)) => pc.check_source("single_source", s, &map, if !with_paths { 0 } else if first_only { 1 } else { 2 }),
            }
            if pc.failed {
                return false;
            }
        }
    }
    // path lists for every source of a 500-node graph are gigabytes of strings: above 130 nodes
    // only distances are requested from all sources at once
    let heavy = n > 130;
    // multi_source over a subset with a duplicate, all_pairs over everything
    if n > 0 && !heavy {
        let mut subset: Vec<usize> = if n >= 2 && rng.chance(1, 4) { (0..n - 1).collect() } else { (0..n).filter(|_| rng.chance(1, 2)).collect() };
        if subset.is_empty() {
            subset.push(rng.below(n));
        }
        subset.push(subset[0]);
        if subset.len() == n {
            ctx::count("reach:source-list-of-n-entries-with-a-repeat");
        }
        let names: Vec<String> = subset.iter().map(|i| d.names[*i].clone()).collect();
        match guard("dijkstra::multi_source", || dijkstra::multi_source(g, weighted, names.clone(), None, None, !all_paths, true)) {
            Err(c) => pc.fail("multi_source", &c.class(), c.json()),
            Ok(Err(e)) => pc.fail("multi_source", &format!("error:{}", err_name(&e.kind)), json!({"sources": names})),
            Ok(Ok(mm)) => {
                let want: BTreeSet<&String> = names.iter().collect();
                let got: BTreeSet<&String> = mm.keys().collect();
                if want != got {
                    pc.fail("multi_source", "source-set-differs", json!({"sources": names, "got": got}));
                } else {
                    for s in subset.iter().collect::<BTreeSet<_>>() {
                        pc.check_source("multi_source", *s, &mm[&d.names[*s]], if all_paths { 2 } else { 1 });
                        if pc.failed {
                            return false;
                        }
                    }
                }
            }
        }
    }
    for (first_only, with_paths) in [(false, true), (false, false), (true, true)] {
        if !all_paths && !first_only && with_paths {
            continue;
        }
        if heavy && with_paths {
            continue;
        }
        match guard("dijkstra::all_pairs", || dijkstra::all_pairs(g, weighted, None, None, first_only, with_paths)) {
            Err(c) => pc.fail("all_pairs", &c.class(), c.json()),
            Ok(Err(e)) => pc.fail("all_pairs", &format!("error:{}", err_name(&e.kind)), json!(null)),
            Ok(Ok(mm)) => {
                if mm.len() != n {
                    pc.fail("all_pairs", "source-set-differs", json!({"got": mm.len(), "want": n}));
                } else {
                    for s in 0..n {
                        match mm.get(&d.names[s]) {
                            None => {
                                pc.fail("all_pairs", "source-missing", json!({"source": d.names[s]}));
                            }
                            Some(map) => pc.check_source("all_pairs", s, map, if !with_paths { 0 } else if first_only { 1 } else { 2 }),
                        }
                        if pc.failed {
                            return false;
                        }
                    }
                }
            }
        }
        if pc.failed {
            return false;
        }
    }
    // every source towards one target at once: the target's entry of each source must be the
    // full answer for that pair
    if n > 0 && !heavy {
        for _ in 0..2 {
            let t = rng.below(n);
            let tn = d.names[t].clone();
            for (func, r) in [
                ("all_pairs(target)", guard("dijkstra::all_pairs", || dijkstra::all_pairs(g, weighted, Some(tn.clone()), None, !all_paths, true))),
                ("multi_source(target)", guard("dijkstra::multi_source", || dijkstra::multi_source(g, weighted, d.names.clone(), Some(tn.clone()), None, !all_paths, true))),
            ] {
                ctx::eval(1);
                match r {
                    Err(c) => pc.fail(func, &c.class(), c.json()),
                    Ok(Err(e)) => pc.fail(func, &format!("error:{}", err_name(&e.kind)), json!({"target": tn})),
                    Ok(Ok(mm)) => {
                        ctx::count("reach:all-sources-towards-one-target");
                        for s in 0..n {
                            let dist = oracle::sssp(d, s, weighted);
                            let entry = mm.get(&d.names[s]).and_then(|row| row.get(&tn));
                            pc.check_target_entry(func, s, t, &dist, entry);
                            if pc.failed {
                                return false;
                            }
                        }
                    }
                }
            }
        }
    }
    !pc.failed
}

/// The same nodes and edges reached through the derived-graph functions (the algorithms must
/// answer from whatever those functions built).
fn derived_variants(g: &GS) -> Vec<(GS, &'static str)> {
    let mut v: Vec<(GS, &'static str)> = vec![];
    if let Ok(s1) = g.to_single_edges() {
        v.push((s1, "to_single_edges"));
    }
    v.push((g.set_all_edge_weights(2.5), "set_all_edge_weights(2.5)"));
    if let Ok(r) = g.reverse() {
        v.push((r, "reverse"));
    }
    let names: Vec<String> = g.get_all_nodes().iter().rev().map(|x| x.name.clone()).collect();
    v.push((g.get_subgraph(&names), "get_subgraph(all nodes)"));
    v
}

/// weight class of a derived graph: exact iff every weight is a multiple of 1/8 below 2^40
fn derived_wclass(d: &Dense, orig: WClass) -> WClass {
    if !orig.weighted() || d.any_nan {
        return if d.any_nan { WClass::Unweighted } else { orig };
    }
    if d.edges.iter().all(|e| (e.2 * 8.0).fract() == 0.0 && e.2.abs() < 1e12) {
        WClass::Exact
    } else if orig.is_exact() {
        WClass::Generic
    } else {
        orig
    }
}

fn wclasses_all() -> Vec<WClass> {
    vec![WClass::Unweighted, WClass::Exact, WClass::Exact, WClass::ExactWide, WClass::Generic, WClass::ZeroContaining, WClass::UlpsDecimal, WClass::UlpsTiny]
}

pub fn run_c04(a: &Args) {
    let kinds = kinds8();
    let total: u64 = if a.thorough { 150_000 } else { 8_000 };
    for idx in 0..total {
        if !ctx::mine(idx) {
            continue;
        }
        let mut rng = Rng::new(mix(a.seed ^ 0xC04, idx));
        // 1 in 8 cases is large enough for the parallel branch
        let big = idx % 8 == 7;
        let huge = idx % 400 == 399;
        let case = if huge {
            let sizes: &[usize] = if a.thorough { &[65, 100, 129, 200, 257, 300, 513] } else { &[65, 130, 260] };
            let n = *rng.pick(sizes);
            ctx::count("reach:n>64");
            let fam: &'static str = *rng.pick(&["gnp_sparse", "tree", "cycle", "grid", "components"]);
            gen_case(*rng.pick(&kinds), fam, n, *rng.pick(&wclasses_all()), &GenOpts { self_loops: rng.coin(), parallel: rng.coin(), shuffle_edges: true }, &mut rng)
        } else if big {
            random_case(&mut rng, 21, if a.thorough { 60 } else { 40 }, &kinds, &wclasses_all())
        } else {
            random_case(&mut rng, 0, 9, &kinds, &wclasses_all())
        };
        ctx::case_desc(case.json());
        let g = case.build();
        let d = Dense::from_graph(&g);
        reach_counters(&case, &d);
        let mut ok = true;
        if case.wclass.weighted() {
            // with zero-weight edges the number of tied paths can be exponential and the statement
            // promises the path set only for strictly positive weights: no all-paths calls on larger graphs
            let all_paths = !huge && !(case.wclass == WClass::ZeroContaining && case.n() > 12);
            ok &= c04_graph("C04", &case, &g, &d, true, &mut rng, !big && !huge, all_paths);
        }
        if ok && (!case.wclass.weighted() || rng.chance(1, 3)) {
            c04_graph("C04", &case, &g, &d, false, &mut rng, !big && !huge, !huge);
        }
        // the same searches on graphs obtained from this one through the derived-graph functions
        if ok && idx % 4 == 1 && !huge && !case.wclass.is_ulps() && case.wclass != WClass::ZeroContaining {
            for (g2, how) in derived_variants(&g) {
                let d2 = Dense::from_graph(&g2);
                let mut c2 = case.clone();
                c2.wclass = derived_wclass(&d2, case.wclass);
                c2.family = how;
                ctx::count(&format!("reach:searches-on-graph-from-{}", how.split('(').next().unwrap_or(how)));
                if !c04_graph("C04", &c2, &g2, &d2, c2.wclass.weighted(), &mut rng, !big, !big || c2.wclass != WClass::Exact) {
                    break;
                }
            }
        }
        let dist = oracle::apsp(&d, false);
        if (0..d.n).any(|s| (0..d.n).any(|t| dist[s][t] == INF)) {
            ctx::count("reach:unreachable-pairs");
        }
        if d.n >= 2 && !d.edges.is_empty() {
            ctx::nontrivial(case.hash());
            ctx::sample_tagged(&format!("{}-{}", case.specs.kind_label(), if big { "large" } else { "small" }), || case.json());
        }
    }
    // trees with positive weights forty orders of magnitude apart: one path per reachable pair,
    // whatever floating point does to the sums
    let trees: u64 = if a.thorough { 6000 } else { 400 };
    for k in 0..trees {
        if !ctx::mine(total + k) {
            continue;
        }
        let mut rng = Rng::new(mix(a.seed ^ 0xC04_7EE, k));
        let case = mixed_magnitude_tree(&mut rng);
        ctx::case_desc(case.json());
        let g = case.build();
        let d = Dense::from_graph(&g);
        let kind = kind_class(&g);
        ctx::count("reach:tree-with-weights-that-absorb-each-other");
        let hop = oracle::apsp(&d, false);
        let fail = |func: &str, class: &str, detail: Value| {
            ctx::violation(&format!("C04|{}|{}|{}", func, class, kind), &format!("{}: {}", func, class), json!({"detail": detail, "graph": case.json(), "stored_edges": d.edges.iter().map(|(u, v, w)| json!([d.names[*u], d.names[*v], w])).collect::<Vec<_>>()}));
        };
        let ap = match guard("dijkstra::all_pairs", || dijkstra::all_pairs(&g, true, None, None, false, true)) {
            Ok(Ok(m)) => Some(m),
            Ok(Err(e)) => { fail("all_pairs", &format!("error:{}", err_name(&e.kind)), json!(null)); None }
            Err(c) => { fail("all_pairs", &c.class(), c.json()); None }
        };
        'src: for s in 0..d.n {
            let ss = match guard("dijkstra::single_source", || dijkstra::single_source(&g, true, d.names[s].clone(), None, None, false, true)) {
                Ok(Ok(m)) => m,
                Ok(Err(e)) => { fail("single_source", &format!("error:{}", err_name(&e.kind)), json!(null)); break }
                Err(c) => { fail("single_source", &c.class(), c.json()); break }
            };
            ctx::eval(1);
            for t in 0..d.n {
                let reachable = hop[s][t] != INF;
                for (func, info) in [("single_source", ss.get(&d.names[t])), ("all_pairs", ap.as_ref().and_then(|m| m.get(&d.names[s])).and_then(|m| m.get(&d.names[t])))] {
                    if func == "all_pairs" && ap.is_none() {
                        continue;
                    }
                    match (reachable, info) {
                        (false, None) => {}
                        (false, Some(_)) => { fail(func, "unreachable-node-reported", json!({"source": d.names[s], "target": d.names[t]})); break 'src }
                        (true, None) => { fail(func, "reachable-target-missing", json!({"source": d.names[s], "target": d.names[t]})); break 'src }
                        (true, Some(i)) => {
                            if i.paths.len() != 1 || i.paths[0].len() != hop[s][t] as usize + 1 || i.paths[0].first() != Some(&d.names[s]) || i.paths[0].last() != Some(&d.names[t]) {
                                fail(func, "not-the-single-tree-path", json!({"source": d.names[s], "target": d.names[t], "paths": i.paths, "hops": hop[s][t]}));
                                break 'src;
                            }
                            // the path's own weight, summed from the source
                            let pos: Vec<usize> = i.paths[0].iter().map(|x| d.names.iter().position(|y| y == x).unwrap()).collect();
                            let mut sum = 0.0;
                            let mut follows = true;
                            for w in pos.windows(2) {
                                if d.minw[w[0]][w[1]] == INF { follows = false; break }
                                sum += d.minw[w[0]][w[1]];
                            }
                            if !follows || !(i.distance == sum || (i.distance - sum).abs() <= 1e-12 * sum.abs()) {
                                fail(func, "distance-differs-from-path-weight", json!({"source": d.names[s], "target": d.names[t], "distance": i.distance, "path_weight": sum, "follows_edges": follows}));
                                break 'src;
                            }
                        }
                    }
                }
            }
        }
        ctx::nontrivial(case.hash());
    }
}

/// A tree on 3..13 nodes (directed: random orientations) with weights from 5e-21 to 1e20.
pub fn mixed_magnitude_tree(rng: &mut Rng) -> GCase {
    let n = rng.range(3, 14);
    let directed = rng.coin();
    let names: Vec<String> = (0..n).map(|i| format!("t{}", i)).collect();
    const MAGS: [f64; 9] = [5e-21, 3e-20, 1e-9, 0.25, 1.0, 7.0, 1e10, 3e19, 1e20];
    let mut edges = vec![];
    for i in 1..n {
        let p = if rng.chance(1, 3) { i - 1 } else { rng.below(i) };
        let w = MAGS[rng.below(MAGS.len())];
        if rng.coin() { edges.push((p, i, w)) } else { edges.push((i, p, w)) }
    }
    rng.shuffle(&mut edges);
    GCase { specs: Specs::kind(directed, false, false), names, edges, family: "tree-mixed-magnitudes", wclass: WClass::Exact }
}

// ============================================================================ C05 / C06

fn centrality_case(rng: &mut Rng, idx: u64, thorough: bool) -> GCase {
    let kinds = kinds8();
    let wcl = vec![WClass::Unweighted, WClass::Exact, WClass::Exact, WClass::ExactWide, WClass::Generic, WClass::UlpsDecimal, WClass::UlpsTiny];
    if idx % 120 == 119 {
        // size sweep across powers of two and chunk-size boundaries
        let sizes: &[usize] = if thorough { &[65, 100, 129, 200, 257, 300, 400, 513, 700] } else { &[65, 130, 260, 300] };
        if rng.chance(1, 4) {
            // more than 2^24 (sometimes more than 2^64) equally short paths between two nodes
            ctx::count("reach:n>64");
            ctx::count("reach:astronomic-path-counts");
            let k = *rng.pick(&[26usize, 30, 40, 64, 66]);
            let w = *rng.pick(&[WClass::Unweighted, WClass::Exact]);
            return diamond_chain(*rng.pick(&kinds), k, w, rng);
        }
        if rng.chance(1, 3) {
            ctx::count("reach:n>64");
            ctx::count("reach:hub-with-more-than-64-neighbours");
            let mut c = boundary_case(rng, 66, 140, &kinds, &wcl);
            let mut tries = 0;
            while c.family != "boundary-hub" && tries < 20 {
                c = boundary_case(rng, 66, 140, &kinds, &wcl);
                tries += 1;
            }
            return c;
        }
        let n = *rng.pick(sizes);
        let specs = *rng.pick(&kinds);
        let fam: &'static str = *rng.pick(&["gnp_sparse", "tree", "cycle", "grid", "components", "nested_scc"]);
        let w = *rng.pick(&wcl);
        ctx::count("reach:n>64");
        return gen_case(specs, fam, n, w, &GenOpts { self_loops: rng.coin(), parallel: rng.coin(), shuffle_edges: true }, rng);
    }
    match idx % 10 {
        0 => random_case(rng, 0, 3, &kinds, &wcl),
        9 => random_case(rng, 21, if thorough { 45 } else { 30 }, &kinds, &wcl),
        _ => random_case(rng, 3, 12, &kinds, &wcl),
    }
}

pub fn run_c05(a: &Args) {
    let total: u64 = if a.thorough { 200_000 } else { 12_000 };
    for idx in 0..total {
        if !ctx::mine(idx) {
            continue;
        }
        let mut rng = Rng::new(mix(a.seed ^ 0xC05, idx));
        let case = centrality_case(&mut rng, idx, a.thorough);
        ctx::case_desc(case.json());
        let built = case.build();
        // every fourth small case also runs on the graphs the derived-graph functions make of it
        let mut variants: Vec<(GS, &'static str)> = vec![];
        if idx % 4 == 2 && case.n() <= 45 && !case.wclass.is_ulps() {
            variants = derived_variants(&built);
        }
        variants.insert(0, (built, "build"));
      for (g, how) in variants {
        let d = Dense::from_graph(&g);
        let kind = kind_class(&g);
        if how == "build" {
            reach_counters(&case, &d);
        } else {
            ctx::count(&format!("reach:betweenness-on-graph-from-{}", how.split('(').next().unwrap_or(how)));
        }
        let wcl = if how == "build" { case.wclass } else { derived_wclass(&d, case.wclass) };
        let modes: Vec<bool> = if wcl.weighted() && !d.any_nan { vec![true, false] } else { vec![false] };
        let mut had_ties = false;
        for weighted in modes {
            let tol = tol_for(wcl, weighted);
            if tol != 0.0 {
                // only tie-free generic graphs: certify the gap for every source
                let ok = (0..d.n).all(|s| oracle::min_relative_gap(&d, &oracle::sssp(&d, s, weighted), weighted, tol) > 1e-6);
                if !ok {
                    ctx::count("skipped:near-tie-generic-graph");
                    continue;
                }
            }
            // ulp-apart weight classes: ties are decided exactly as a label-setting search does
            let ulps = matches!(wcl, WClass::UlpsDecimal | WClass::UlpsTiny) && weighted;
            if ulps && d.n > 45 {
                continue;
            }
            let raw = if ulps { oracle::betweenness_unscaled_dag(&d, weighted) } else { oracle::betweenness_unscaled(&d, weighted, tol) };
            for normalized in [false, true] {
                let want = oracle::scale_betweenness(&d, &raw, normalized);
                ctx::eval(1);
                match guard("betweenness_centrality", || betweenness::betweenness_centrality(&g, weighted, normalized)) {
                    Err(c) => ctx::violation(&format!("C05|betweenness_centrality|{}|{}", c.class(), kind), "betweenness_centrality panicked", json!({"caught": c.json(), "graph": case.json()})),
                    Ok(Err(e)) => ctx::violation(&format!("C05|betweenness_centrality|error:{}|{}", err_name(&e.kind), kind), "betweenness_centrality failed", json!({"graph": case.json(), "weighted": weighted})),
                    Ok(Ok(map)) => {
                        if map.len() != d.n {
                            ctx::violation(&format!("C05|betweenness_centrality|entry-count|{}", kind), "result does not have exactly one entry per node", json!({"got": map.len(), "n": d.n, "graph": case.json()}));
                            continue;
                        }
                        for i in 0..d.n {
                            let got = map.get(&d.names[i]).copied().unwrap_or(f64::NAN);
                            if !approx(got, want[i]) {
                                let class = if d.n <= 2 { "wrong-value-n<=2" } else if normalized { "wrong-value-normalized" } else { "wrong-value-raw" };
                                ctx::violation(
                                    &format!("C05|betweenness_centrality|{}|{}", class, kind),
                                    "betweenness differs from the pair-dependency definition",
                                    json!({"node": d.names[i], "got": got, "want": want[i], "weighted": weighted, "normalized": normalized, "graph": case.json()}),
                                );
                                break;
                            }
                        }
                    }
                }
            }
            // tie detection for the non-triviality rule
            for s in 0..d.n {
                let dist = oracle::sssp(&d, s, weighted);
                if oracle::path_counts(&d, s, &dist, weighted, tol).iter().any(|c| *c >= 2.0) {
                    had_ties = true;
                    break;
                }
            }
        }
        if how != "build" {
            continue;
        }
        if had_ties {
            ctx::count("reach:graph-with-tied-shortest-paths");
        }
        if d.n <= 2 {
            ctx::count("reach:n<=2");
        }
        if d.n >= 3 && !d.edges.is_empty() {
            ctx::nontrivial(case.hash());
            ctx::sample_tagged(&case.specs.kind_label(), || case.json());
        }
      }
    }
    // trees whose positive weights span forty orders of magnitude: every pair has at most one
    // path, so the weighted answer is the hop-count answer whatever floating point does to sums
    let trees: u64 = if a.thorough { 6000 } else { 400 };
    for k in 0..trees {
        if !ctx::mine(total + k) {
            continue;
        }
        let mut rng = Rng::new(mix(a.seed ^ 0xC05_7EE, k));
        let case = mixed_magnitude_tree(&mut rng);
        ctx::case_desc(case.json());
        let g = case.build();
        let d = Dense::from_graph(&g);
        let kind = kind_class(&g);
        ctx::count("reach:tree-with-weights-that-absorb-each-other");
        let raw = oracle::betweenness_unscaled(&d, false, 0.0);
        for normalized in [false, true] {
            let want = oracle::scale_betweenness(&d, &raw, normalized);
            ctx::eval(1);
            match guard("betweenness_centrality", || betweenness::betweenness_centrality(&g, true, normalized)) {
                Err(c) => ctx::violation(&format!("C05|betweenness_centrality|{}|{}", c.class(), kind), "betweenness_centrality panicked", json!({"caught": c.json(), "graph": case.json()})),
                Ok(Err(e)) => ctx::violation(&format!("C05|betweenness_centrality|error:{}|{}", err_name(&e.kind), kind), "betweenness_centrality failed", json!({"graph": case.json()})),
                Ok(Ok(map)) => {
                    for i in 0..d.n {
                        let got = map.get(&d.names[i]).copied().unwrap_or(f64::NAN);
                        if !approx(got, want[i]) {
                            ctx::violation(
                                &format!("C05|betweenness_centrality|wrong-value-on-tree-with-mixed-magnitudes|{}", kind),
                                "weighted betweenness on a tree differs from the (weight-independent) definition",
                                json!({"node": d.names[i], "got": got, "want": want[i], "normalized": normalized, "graph": case.json(), "stored_edges": d.edges.iter().map(|(u, v, w)| json!([d.names[*u], d.names[*v], w])).collect::<Vec<_>>()}),
                            );
                            break;
                        }
                    }
                }
            }
        }
        ctx::nontrivial(case.hash());
    }
}

pub fn run_c06(a: &Args) {
    let total: u64 = if a.thorough { 200_000 } else { 12_000 };
    for idx in 0..total {
        if !ctx::mine(idx) {
            continue;
        }
        let mut rng = Rng::new(mix(a.seed ^ 0xC06, idx));
        let case = centrality_case(&mut rng, idx, a.thorough);
        ctx::case_desc(case.json());
        let built = case.build();
        // every fourth small case also runs on the graphs the derived-graph functions make of it
        let mut variants: Vec<(GS, &'static str)> = vec![];
        if idx % 4 == 2 && case.n() <= 45 && !case.wclass.is_ulps() {
            variants = derived_variants(&built);
        }
        variants.insert(0, (built, "build"));
      for (g, how) in variants {
        let d = Dense::from_graph(&g);
        let kind = kind_class(&g);
        if how == "build" {
            reach_counters(&case, &d);
        } else {
            ctx::count(&format!("reach:closeness-on-graph-from-{}", how.split('(').next().unwrap_or(how)));
        }
        let wcl = if how == "build" { case.wclass } else { derived_wclass(&d, case.wclass) };
        let modes: Vec<bool> = if wcl.weighted() && !d.any_nan { vec![true, false] } else { vec![false] };
        for weighted in modes {
            for wf in [false, true] {
                let want = oracle::closeness(&d, weighted, wf);
                ctx::eval(1);
                match guard("closeness_centrality", || closeness::closeness_centrality(&g, weighted, wf)) {
                    Err(c) => ctx::violation(&format!("C06|closeness_centrality|{}|{}", c.class(), kind), "closeness_centrality panicked", json!({"caught": c.json(), "graph": case.json()})),
                    Ok(Err(e)) => ctx::violation(&format!("C06|closeness_centrality|error:{}|{}", err_name(&e.kind), kind), "closeness_centrality failed", json!({"graph": case.json()})),
                    Ok(Ok(map)) => {
                        if map.len() != d.n {
                            ctx::violation(&format!("C06|closeness_centrality|entry-count|{}", kind), "result does not have exactly one entry per node", json!({"got": map.len(), "n": d.n, "graph": case.json()}));
                            continue;
                        }
                        for i in 0..d.n {
                            let got = map.get(&d.names[i]).copied().unwrap_or(f64::NAN);
                            if !approx(got, want[i]) {
                                ctx::violation(
                                    &format!("C06|closeness_centrality|{}|{}", if wf { "wrong-value-wf" } else { "wrong-value" }, kind),
                                    "closeness differs from (r-1)/sum of incoming distances",
                                    json!({"node": d.names[i], "got": got, "want": want[i], "weighted": weighted, "wf_improved": wf, "graph": case.json(), "graph_obtained_by": how}),
                                );
                                break;
                            }
                        }
                    }
                }
            }
        }
        if how != "build" {
            continue;
        }
        if d.directed {
            let dist = oracle::apsp(&d, false);
            if (0..d.n).any(|s| (0..d.n).any(|t| (dist[s][t] == INF) != (dist[t][s] == INF))) {
                ctx::count("reach:directed-asymmetric-reachability");
            }
        }
        if d.n >= 2 && !d.edges.is_empty() {
            ctx::nontrivial(case.hash());
            ctx::sample_tagged(&case.specs.kind_label(), || case.json());
        }
      }
    }
}

// ============================================================================ C08

type SPMap = HashMap<String, ShortestPathInfo<String>>;

fn sorted_paths(p: &[Vec<String>]) -> Vec<Vec<String>> {
    let mut v = p.to_vec();
    v.sort();
    v
}

/// Larger graphs (70..140 nodes: hubs, dense parts) with a reduced option product: for a few
/// sources every optioned search must agree with the distance-only search on distance bits.
fn c08_large(rng: &mut Rng, kinds: &[Specs]) {
    let wcl = [WClass::Exact, WClass::ExactWide, WClass::Generic, WClass::Unweighted];
    let mut case = boundary_case(rng, 70, 140, kinds, &wcl);
    let mut tries = 0;
    while case.family != "boundary-hub" && case.family != "boundary-node-count" && tries < 20 {
        case = boundary_case(rng, 70, 140, kinds, &wcl);
        tries += 1;
    }
    let mut first_source: Option<usize> = None;
    if rng.coin() {
        // improvement cascade: a chain of hubs, each of which strictly improves the tentative
        // distance of every leaf (many superseded entries in any lazy-deletion queue)
        let k = rng.range(4, 8);
        let leaves = rng.range(70, 130);
        let n = k + leaves;
        let specs = *rng.pick(kinds);
        let names = scrambled_names(n, rng);
        let mut edges = vec![];
        let step = *rng.pick(&[1.0, 0.5, 2.0]);
        for h in 1..k {
            edges.push((h - 1, h, step));
        }
        for h in 0..k {
            for l in 0..leaves {
                edges.push((h, k + l, 100.0 - (1.0 + step) * h as f64 * 2.0 + (l % 7) as f64));
            }
        }
        rng.shuffle(&mut edges);
        case = GCase { specs: Specs::kind(specs.directed, false, false), names, edges, family: "improvement-cascade", wclass: WClass::Exact };
        first_source = Some(0);
        ctx::count("reach:improvement-cascade");
    }
    ctx::case_desc(case.json());
    ctx::count("reach:graph-with-70-or-more-nodes");
    let g = case.build();
    let d = Dense::from_graph(&g);
    let kind = kind_class(&g);
    let weighted = case.wclass.weighted();
    let n = d.n;
    for round in 0..6 {
        let s = match (round, first_source) {
            (0, Some(h0)) => d.idx[&case.names[h0]],
            _ => rng.below(n),
        };
        let src = d.names[s].clone();
        let basic = match guard("dijkstra::single_source", || dijkstra::single_source(&g, weighted, src.clone(), None, None, false, false)) {
            Ok(Ok(m)) => m,
            _ => {
                ctx::violation(&format!("C08|single_source|distance-only-call-failed|{}", kind), "distance-only search failed", json!({"source": src, "graph": case.json()}));
                return;
            }
        };
        let t = d.names[rng.below(n)].clone();
        let mut ds: Vec<f64> = basic.values().map(|i| i.distance).collect();
        ds.sort_by(|a, b| a.partial_cmp(b).unwrap());
        let cut = ds[ds.len() / 2];
        for (target, cutoff, first_only, with_paths) in [
            (None, None, true, true),
            (None, None, true, false),
            (Some(t.clone()), None, true, true),
            (Some(t.clone()), None, false, false),
            (None, Some(cut), true, true),
            (None, Some(cut), false, false),
        ] {
            ctx::eval(1);
            let opt = json!({"source": src, "target": target, "cutoff": cutoff, "first_only": first_only, "with_paths": with_paths});
            match guard("dijkstra::single_source", || dijkstra::single_source(&g, weighted, src.clone(), target.clone(), cutoff, first_only, with_paths)) {
                Ok(Ok(m)) => {
                    for (k, v) in &m {
                        match basic.get(k) {
                            Some(b) if b.distance.to_bits() == v.distance.to_bits() => {}
                            other => {
                                ctx::violation(&format!("C08|single_source|option-changed-a-distance|{}", kind), "an optioned search on a large graph disagrees with the distance-only search", json!({"options": opt, "node": k, "got": v.distance, "distance_only": other.map(|b| b.distance), "graph": case.json()}));
                                return;
                            }
                        }
                    }
                    let within = |x: f64| cutoff.map_or(true, |c| x <= c);
                    let required: Vec<&String> = match &target {
                        None => basic.iter().filter(|(_, b)| within(b.distance)).map(|(k, _)| k).collect(),
                        Some(t) => basic.iter().filter(|(k, b)| *k == t && within(b.distance)).map(|(k, _)| k).collect(),
                    };
                    if let Some(k) = required.iter().find(|k| !m.contains_key(**k)) {
                        ctx::violation(&format!("C08|single_source|option-dropped-an-entry|{}", kind), "an optioned search on a large graph dropped a required entry", json!({"options": opt, "node": k, "graph": case.json()}));
                        return;
                    }
                }
                Ok(Err(e)) => {
                    ctx::violation(&format!("C08|single_source|error:{}|{}", err_name(&e.kind), kind), "optioned search failed on a large graph", json!({"options": opt, "graph": case.json()}));
                    return;
                }
                Err(c) => {
                    ctx::violation(&format!("C08|single_source|{}|{}", c.class(), kind), "optioned search panicked on a large graph", json!({"options": opt, "caught": c.json()}));
                    return;
                }
            }
        }
    }
    // all sources at once (the parallel branch: n > 20 in a pool of 16 threads) against one
    // single-source search per source with the same options
    let t = d.names[rng.below(n)].clone();
    let cut = {
        let s0 = d.names[rng.below(n)].clone();
        match dijkstra::single_source(&g, weighted, s0, None, None, false, false) {
            Ok(m) => {
                let mut ds: Vec<f64> = m.values().map(|i| i.distance).collect();
                ds.sort_by(|a, b| a.partial_cmp(b).unwrap());
                ds[ds.len() / 2]
            }
            Err(_) => 1.0,
        }
    };
    for (target, cutoff, first_only, with_paths) in [
        (None, Some(cut), false, false),
        (None, Some(cut), true, false),
        (None, Some(cut), true, true),
        (Some(t.clone()), None, false, false),
        (Some(t.clone()), Some(cut), false, false),
        (Some(t.clone()), Some(cut), true, true),
        (None, None, false, false),
    ] {
        let opt = json!({"target": target, "cutoff": cutoff, "first_only": first_only, "with_paths": with_paths});
        let ap = guard("dijkstra::all_pairs", || dijkstra::all_pairs(&g, weighted, target.clone(), cutoff, first_only, with_paths));
        let ms = guard("dijkstra::multi_source", || dijkstra::multi_source(&g, weighted, d.names.clone(), target.clone(), cutoff, first_only, with_paths));
        ctx::eval(2);
        ctx::count("reach:all-sources-with-options-on-a-large-graph");
        for (func, r) in [("all_pairs", ap), ("multi_source", ms)] {
            let m = match r {
                Ok(Ok(m)) => m,
                Ok(Err(e)) => {
                    ctx::violation(&format!("C08|{}|error:{}|{}", func, err_name(&e.kind), kind), "optioned all-sources search failed on a large graph", json!({"options": opt, "graph": case.json()}));
                    return;
                }
                Err(c) => {
                    ctx::violation(&format!("C08|{}|{}|{}", func, c.class(), kind), "optioned all-sources search panicked on a large graph", json!({"options": opt, "caught": c.json()}));
                    return;
                }
            };
            for s in 0..n {
                let src = d.names[s].clone();
                let one = match dijkstra::single_source(&g, weighted, src.clone(), target.clone(), cutoff, first_only, with_paths) {
                    Ok(x) => x,
                    Err(_) => continue,
                };
                let row = m.get(&src);
                let same = match row {
                    None => one.is_empty(),
                    Some(row) => row.len() == one.len() && one.iter().all(|(k, v)| row.get(k).map_or(false, |w| w.distance.to_bits() == v.distance.to_bits() && (with_paths || w.paths.is_empty()) && (!with_paths || first_only || { let mut a = w.paths.clone(); let mut b = v.paths.clone(); a.sort(); b.sort(); a == b }))),
                };
                if !same {
                    ctx::violation(
                        &format!("C08|{}|differs-from-single_source-with-the-same-options|{}", func, kind),
                        "all-sources search with options differs from the single-source search with the same options (large graph, parallel branch)",
                        json!({"options": opt, "source": src, "entries_all_sources": row.map(|r| r.len()), "entries_single_source": one.len(), "graph": case.json()}),
                    );
                    return;
                }
            }
        }
    }
    ctx::nontrivial(case.hash());
}

pub fn run_c08(a: &Args) {
    let kinds = kinds8();
    let wcl = vec![WClass::Unweighted, WClass::Exact, WClass::Exact, WClass::ExactWide, WClass::Generic, WClass::Generic, WClass::UlpsDecimal, WClass::UlpsTiny];
    let total: u64 = if a.thorough { 100_000 } else { 6_000 };
    for idx in 0..total {
        if !ctx::mine(idx) {
            continue;
        }
        let mut rng = Rng::new(mix(a.seed ^ 0xC08, idx));
        if idx % 100 == 99 {
            c08_large(&mut rng, &kinds);
            continue;
        }
        let mut case = random_case(&mut rng, 1, 8, &kinds, &wcl);
        if case.wclass == WClass::Generic && rng.coin() {
            // decimal weights such as 0.2, 0.5, 0.7: not representable, sums round
            for e in case.edges.iter_mut() {
                e.2 = rng.range(1, 30) as f64 / 10.0;
            }
        }
        ctx::case_desc(case.json());
        let g = case.build();
        let d = Dense::from_graph(&g);
        let kind = kind_class(&g);
        let weighted = case.wclass.weighted();
        let n = d.n;
        let exact = case.wclass.is_exact() || !weighted; // sums of non-dyadic weights depend on the direction of travel
        let fail = |func: &str, class: &str, detail: Value| {
            ctx::violation(&format!("C08|{}|{}|{}", func, class, kind), &format!("{}: {}", func, class), json!({"detail": detail, "weighted": weighted, "graph": case.json()}));
        };
        macro_rules! ss {
            ($s:expr, $t:expr, $c:expr, $f:expr, $p:expr) => {{
                ctx::eval(1);
                match guard("dijkstra::single_source", || dijkstra::single_source(&g, weighted, d.names[$s].clone(), $t, $c, $f, $p)) {
                    Ok(Ok(m)) => Some(m),
                    Ok(Err(e)) => {
                        fail("single_source", &format!("error:{}", err_name(&e.kind)), json!({"source": d.names[$s]}));
                        None
                    }
                    Err(c) => {
                        fail("single_source", &c.class(), c.json());
                        None
                    }
                }
            }};
        }
        // reference: unrestricted, all paths
        let mut base: Vec<SPMap> = vec![];
        let mut okb = true;
        for s in 0..n {
            match ss!(s, None, None, false, true) {
                Some(m) => base.push(m),
                None => {
                    okb = false;
                    break;
                }
            }
        }
        if !okb {
            continue;
        }
        let same_entry = |x: &ShortestPathInfo<String>, y: &ShortestPathInfo<String>| x.distance.to_bits() == y.distance.to_bits() && sorted_paths(&x.paths) == sorted_paths(&y.paths);
        // all_pairs == multi_source(all) == per-node single_source
        let ap = guard("dijkstra::all_pairs", || dijkstra::all_pairs(&g, weighted, None, None, false, true));
        let ms = guard("dijkstra::multi_source", || dijkstra::multi_source(&g, weighted, d.names.clone(), None, None, false, true));
        ctx::eval(2);
        for (func, r) in [("all_pairs", ap), ("multi_source", ms)] {
            match r {
                Err(c) => fail(func, &c.class(), c.json()),
                Ok(Err(e)) => fail(func, &format!("error:{}", err_name(&e.kind)), json!(null)),
                Ok(Ok(mm)) => {
                    if mm.len() != n {
                        fail(func, "source-set-differs-from-single_source", json!({"got": mm.len(), "n": n}));
                    }
                    for s in 0..n {
                        let m = match mm.get(&d.names[s]) {
                            Some(m) => m,
                            None => {
                                fail(func, "source-missing", json!({"source": d.names[s]}));
                                break;
                            }
                        };
                        let keys_a: BTreeSet<&String> = m.keys().collect();
                        let keys_b: BTreeSet<&String> = base[s].keys().collect();
                        if keys_a != keys_b || m.iter().any(|(k, v)| !same_entry(v, &base[s][k])) {
                            fail(func, "differs-from-single_source", json!({"source": d.names[s]}));
                            break;
                        }
                    }
                }
            }
        }
        // all_pairs / multi_source with a target or a cutoff == per-source single_source with the same options
        for t in 0..n.min(4) {
            for (cut, first_only, with_paths) in [(None, false, true), (Some(1.5), false, false), (None, true, true)] {
                let tn = d.names[(t * 3 + 1) % n].clone();
                let singles: Vec<Option<SPMap>> = (0..n).map(|s| ss!(s, Some(tn.clone()), cut, first_only, with_paths)).collect();
                let ap = guard("dijkstra::all_pairs", || dijkstra::all_pairs(&g, weighted, Some(tn.clone()), cut, first_only, with_paths));
                let ms = guard("dijkstra::multi_source", || dijkstra::multi_source(&g, weighted, d.names.clone(), Some(tn.clone()), cut, first_only, with_paths));
                ctx::eval(2);
                for (func, r) in [("all_pairs", ap), ("multi_source", ms)] {
                    if let Ok(Ok(mm)) = r {
                        for s in 0..n {
                            let (a, b) = match (mm.get(&d.names[s]), &singles[s]) {
                                (Some(a), Some(b)) => (a, b),
                                _ => {
                                    fail(func, "optioned-call-differs-from-single_source", json!({"source": d.names[s], "target": tn, "cutoff": cut}));
                                    break;
                                }
                            };
                            // the target's entry is fully determined; other entries must be reported consistently
                            let ta = a.get(&tn);
                            let tb = b.get(&tn);
                            let same_t = match (ta, tb) {
                                (None, None) => true,
                                (Some(x), Some(y)) => x.distance.to_bits() == y.distance.to_bits() && (first_only || sorted_paths(&x.paths) == sorted_paths(&y.paths)),
                                _ => false,
                            };
                            let keys_a: BTreeSet<&String> = a.keys().collect();
                            let keys_b: BTreeSet<&String> = b.keys().collect();
                            if !same_t || keys_a != keys_b || a.iter().any(|(k, v)| v.distance.to_bits() != b[k].distance.to_bits()) {
                                fail(func, "optioned-call-differs-from-single_source", json!({"source": d.names[s], "target": tn, "cutoff": cut, "first_only": first_only, "with_paths": with_paths}));
                                break;
                            }
                        }
                    } else {
                        fail(func, "optioned-call-failed", json!({"target": tn, "cutoff": cut}));
                    }
                }
            }
        }
        // option product per source
        for s in 0..n {
            let b = &base[s];
            let mut dvals: Vec<f64> = b.values().map(|i| i.distance).collect();
            dvals.sort_by(|x, y| x.partial_cmp(y).unwrap());
            dvals.dedup();
            let mut cutoffs: Vec<Option<f64>> = vec![None];
            for w in dvals.windows(2) {
                cutoffs.push(Some((w[0] + w[1]) / 2.0));
            }
            for v in &dvals {
                cutoffs.push(Some(*v));
            }
            if let Some(l) = dvals.last() {
                cutoffs.push(Some(l + 1.0));
            }
            let mut targets: Vec<Option<usize>> = vec![None];
            targets.extend((0..n).map(Some));
            for &t in &targets {
                for &c in &cutoffs {
                    for first_only in [false, true] {
                        for with_paths in [false, true] {
                            if t.is_none() && c.is_none() && !first_only && with_paths {
                                continue;
                            }
                            let m = match ss!(s, t.map(|x| d.names[x].clone()), c, first_only, with_paths) {
                                Some(m) => m,
                                None => continue,
                            };
                            let opt = json!({"source": d.names[s], "target": t.map(|x| d.names[x].clone()), "cutoff": c, "first_only": first_only, "with_paths": with_paths});
                            let within = |x: f64| c.map_or(true, |c| x <= c);
                            // every reported entry is an unrestricted entry with the same value
                            let mut bad = false;
                            for (k, v) in &m {
                                match b.get(k) {
                                    None => {
                                        fail("single_source", "option-added-an-entry", json!({"options": opt, "node": k}));
                                        bad = true;
                                    }
                                    Some(bv) => {
                                        if v.distance.to_bits() != bv.distance.to_bits() {
                                            fail("single_source", "option-changed-a-distance", json!({"options": opt, "node": k, "got": v.distance, "unrestricted": bv.distance}));
                                            bad = true;
                                        } else if !within(v.distance) {
                                            fail("single_source", "entry-beyond-cutoff", json!({"options": opt, "node": k, "distance": v.distance}));
                                            bad = true;
                                        } else if !with_paths {
                                            if !v.paths.is_empty() {
                                                fail("single_source", "paths-returned-with-with_paths-false", json!({"options": opt, "node": k}));
                                                bad = true;
                                            }
                                        } else if first_only {
                                            if v.paths.len() != 1 || !bv.paths.contains(&v.paths[0]) {
                                                fail("single_source", "first_only-path-not-one-of-all-paths", json!({"options": opt, "node": k, "got": v.paths, "all": bv.paths}));
                                                bad = true;
                                            }
                                        } else if t.is_none() || t.map(|x| &d.names[x]) == Some(k) {
                                            // full path set required (for the target, or for everyone when no target)
                                            if sorted_paths(&v.paths) != sorted_paths(&bv.paths) {
                                                fail("single_source", "option-changed-a-path-set", json!({"options": opt, "node": k, "got": v.paths, "unrestricted": bv.paths}));
                                                bad = true;
                                            }
                                        } else {
                                            // other nodes reported alongside a target: a subset of their shortest paths
                                            if v.paths.iter().any(|p| !bv.paths.contains(p)) {
                                                fail("single_source", "option-invented-a-path", json!({"options": opt, "node": k}));
                                                bad = true;
                                            }
                                        }
                                    }
                                }
                                if bad {
                                    break;
                                }
                            }
                            if bad {
                                continue;
                            }
                            // required entries
                            match t {
                                None => {
                                    for (k, bv) in b {
                                        if within(bv.distance) && !m.contains_key(k) {
                                            fail("single_source", if c.is_some() { "cutoff-dropped-an-entry-within-cutoff" } else { "option-dropped-an-entry" }, json!({"options": opt, "node": k, "distance": bv.distance}));
                                            break;
                                        }
                                    }
                                }
                                Some(tt) => {
                                    if let Some(bv) = b.get(&d.names[tt]) {
                                        if within(bv.distance) && !m.contains_key(&d.names[tt]) {
                                            fail("single_source", "target-entry-missing", json!({"options": opt, "distance": bv.distance}));
                                        }
                                    }
                                }
                            }
                        }
                    }
                }
            }
        }
        // symmetry on undirected graphs, triangle inequality
        for s in 0..n {
            for t in 0..n {
                if let Some(st) = base[s].get(&d.names[t]) {
                    if !d.directed {
                        match base[t].get(&d.names[s]) {
                            None => fail("single_source", "undirected-reachability-not-symmetric", json!({"u": d.names[s], "v": d.names[t]})),
                            Some(ts) => {
                                let ok = if exact { ts.distance == st.distance } else { deq(ts.distance, st.distance, 1e-9) };
                                if !ok {
                                    fail("single_source", "undirected-distance-not-symmetric", json!({"u": d.names[s], "v": d.names[t], "d_uv": st.distance, "d_vu": ts.distance}));
                                }
                            }
                        }
                    }
                    for x in 0..n {
                        if let (Some(sx), Some(xt)) = (base[s].get(&d.names[x]), base[x].get(&d.names[t])) {
                            let sum = sx.distance + xt.distance;
                            if st.distance > sum + 1e-12 * sum.abs() {
                                fail("single_source", "triangle-inequality", json!({"s": d.names[s], "x": d.names[x], "t": d.names[t], "d_st": st.distance, "d_sx+d_xt": sum}));
                            }
                        }
                    }
                }
            }
        }
        // ShortestPathInfo::contains_path_through_node(x) = some listed path has x strictly inside
        for s in 0..n {
            for (k, v) in &base[s] {
                for x in 0..n {
                    let want = v.paths.iter().any(|p| p.len() > 2 && p[1..p.len() - 1].contains(&d.names[x]));
                    ctx::eval(1);
                    match guard("contains_path_through_node", || v.contains_path_through_node(d.names[x].clone())) {
                        Ok(got) if got == want => {
                            if want {
                                ctx::count("reach:contains_path_through_node-true");
                            }
                        }
                        Ok(got) => fail("contains_path_through_node", "wrong-answer", json!({"source": d.names[s], "target": k, "node": d.names[x], "got": got, "paths": v.paths})),
                        Err(c) => fail("contains_path_through_node", &c.class(), c.json()),
                    }
                }
            }
        }
        // get_all_shortest_paths_involving(x) = pairs having a shortest path with x strictly inside
        for x in 0..n {
            ctx::eval(1);
            match guard("get_all_shortest_paths_involving", || dijkstra::get_all_shortest_paths_involving(&g, d.names[x].clone(), weighted)) {
                Err(c) => fail("get_all_shortest_paths_involving", &c.class(), c.json()),
                Ok(list) => {
                    let mut want: Vec<(String, String)> = vec![];
                    for s in 0..n {
                        for (k, v) in &base[s] {
                            if v.paths.iter().any(|p| p.len() > 2 && p[1..p.len() - 1].contains(&d.names[x])) {
                                want.push((d.names[s].clone(), k.clone()));
                            }
                        }
                    }
                    want.sort();
                    let mut got: Vec<(String, String)> = vec![];
                    let mut bad_entry = false;
                    for info in &list {
                        match info.paths.first() {
                            Some(p) if !p.is_empty() => got.push((p[0].clone(), p[p.len() - 1].clone())),
                            _ => bad_entry = true,
                        }
                    }
                    got.sort();
                    if bad_entry || got != want {
                        fail("get_all_shortest_paths_involving", "pair-set-differs", json!({"node": d.names[x], "got": got, "want": want}));
                    } else if !want.is_empty() {
                        ctx::count("reach:involving-nonempty");
                    }
                }
            }
        }
        if n >= 3 && !d.edges.is_empty() {
            ctx::nontrivial(case.hash());
            ctx::sample_tagged(&case.specs.kind_label(), || case.json());
        }
    }
}

//! Mutation histories: generator, lock-step execution of the real Graph next to the Model,
//! and the monitors that run at quiescent points (query coherence, snapshot invariants,
//! traversal lists, counts/degrees).

use crate::ctx::{self, guard};
use crate::model::*;
use crate::rng::{fnv, Rng};
use graphrs::{ErrorKind, Graph};
use serde_json::{json, Value};
use std::collections::{BTreeMap, BTreeSet, HashSet};

pub const UNIVERSE: &[&str] = &["m", "b", "z", "a", "k", "é", "", "B"];
pub const ABSENT: &str = "zz-absent";

#[derive(Clone, Debug)]
pub enum Op {
    AddNode(String, Option<i32>),
    AddNodes(Vec<(String, Option<i32>)>),
    AddEdge(MEdge),
    AddEdgeTuple(String, String),
    AddEdges(Vec<MEdge>),
    AddEdgeTuples(Vec<(String, String)>),
}

impl Op {
    pub fn json(&self) -> Value {
        let ej = |e: &MEdge| json!([e.u, e.v, wjson(e.w), e.attr]);
        match self {
            Op::AddNode(n, a) => json!({"add_node": [n, a]}),
            Op::AddNodes(v) => json!({"add_nodes": v.iter().map(|(n, a)| json!([n, a])).collect::<Vec<_>>()}),
            Op::AddEdge(e) => json!({"add_edge": ej(e)}),
            Op::AddEdgeTuple(u, v) => json!({"add_edge_tuple": [u, v]}),
            Op::AddEdges(es) => json!({"add_edges": es.iter().map(ej).collect::<Vec<_>>()}),
            Op::AddEdgeTuples(es) => json!({"add_edge_tuples": es}),
        }
    }
    pub fn name(&self) -> &'static str {
        match self {
            Op::AddNode(..) => "add_node",
            Op::AddNodes(..) => "add_nodes",
            Op::AddEdge(..) => "add_edge",
            Op::AddEdgeTuple(..) => "add_edge_tuple",
            Op::AddEdges(..) => "add_edges",
            Op::AddEdgeTuples(..) => "add_edge_tuples",
        }
    }
}

#[derive(Clone, Copy, PartialEq, Eq, Debug)]
pub enum WMode {
    AllNaN,
    /// k/4, k in 1..=20 (positive, exact)
    AllReal,
    /// NaN and real mixed, including 0, negative, huge and infinite weights
    Wild,
    /// positive reals that are one or two ulps apart, or of tiny magnitude
    Ulps,
}

pub fn draw_weight(mode: WMode, rng: &mut Rng) -> f64 {
    match mode {
        WMode::AllNaN => f64::NAN,
        WMode::AllReal => rng.range(1, 20) as f64 / 4.0,
        WMode::Ulps => *rng.pick(&[0.1, 0.2, 0.1 + 0.2, 0.3, 0.7, 0.7000000000000001, 0.6999999999999998, 1e-20, 2e-20, 3e-20, 1e-20 + 2e-20, 2.0, 2.0000000000000004]),
        WMode::Wild => match rng.below(10) {
            0 => f64::NAN,
            1 => 0.0,
            2 => -2.5,
            3 => 1e300,
            4 => f64::INFINITY,
            5 => -0.0,
            6 => 5e-324,
            _ => rng.range(1, 20) as f64 / 4.0,
        },
    }
}

/// A history of `len` operations over a small sub-universe of names, biased towards
/// collisions: re-added nodes, duplicate edges in both orientations with smaller and larger
/// weights, self-loops, edges naming unknown nodes.
pub fn gen_history(rng: &mut Rng, len: usize, wmode: WMode, tuples_ok: bool) -> (Vec<String>, Vec<Op>) {
    let k = rng.range(2, 6);
    let mut uni: Vec<String> = UNIVERSE.iter().map(|s| s.to_string()).collect();
    rng.shuffle(&mut uni);
    uni.truncate(k);
    let mut ops = vec![];
    let mut added_edges: Vec<MEdge> = vec![];
    let draw_edge = |rng: &mut Rng, added: &Vec<MEdge>| -> MEdge {
        let attr = if rng.chance(1, 3) { Some(rng.below(100) as i32) } else { None };
        if !added.is_empty() && rng.chance(2, 5) {
            // collide with an earlier edge: same or opposite orientation, smaller/larger/equal weight
            let prev = added[rng.below(added.len())].clone();
            let (u, v) = if rng.coin() { (prev.u.clone(), prev.v.clone()) } else { (prev.v.clone(), prev.u.clone()) };
            let w = match wmode {
                WMode::AllNaN => f64::NAN,
                WMode::AllReal => match rng.below(3) {
                    0 => (prev.w - 0.25 * rng.range(1, 3) as f64).max(0.25),
                    1 => prev.w + 0.25 * rng.range(1, 3) as f64,
                    _ => prev.w,
                },
                WMode::Wild | WMode::Ulps => draw_weight(wmode, rng),
            };
            MEdge { u, v, w, attr }
        } else if rng.chance(1, 8) {
            let u = rng.pick(&uni).clone();
            MEdge { u: u.clone(), v: u, w: draw_weight(wmode, rng), attr }
        } else {
            MEdge {
                u: rng.pick(&uni).clone(),
                v: rng.pick(&uni).clone(),
                w: draw_weight(wmode, rng),
                attr,
            }
        }
    };
    // most histories start by adding some of the nodes, so that missing-node=Error specs get edges
    if rng.chance(4, 5) {
        let mut ns = uni.clone();
        rng.shuffle(&mut ns);
        let take = rng.range(1, ns.len());
        let list: Vec<(String, Option<i32>)> = ns[..take]
            .iter()
            .map(|n| (n.clone(), if rng.coin() { Some(rng.below(50) as i32) } else { None }))
            .collect();
        if rng.coin() {
            ops.push(Op::AddNodes(list));
        } else {
            for (n, a) in list {
                ops.push(Op::AddNode(n, a));
            }
        }
    }
    if rng.chance(1, 25) {
        // one large batch (64..70 edges) over the small universe: many repeated pairs
        let cnt = rng.range(64, 70);
        let mut es = vec![];
        for _ in 0..cnt {
            let e = draw_edge(rng, &added_edges);
            added_edges.push(e.clone());
            es.push(e);
        }
        ops.push(Op::AddEdges(es));
    }
    while ops.len() < len {
        let allow_tuple = tuples_ok && wmode != WMode::AllReal && wmode != WMode::Ulps;
        match rng.below(12) {
            0 => {
                let n = rng.pick(&uni).clone();
                let a = if rng.coin() { Some(rng.below(50) as i32) } else { None };
                ops.push(Op::AddNode(n, a));
            }
            1 => {
                let cnt = rng.range(1, 3);
                let list = (0..cnt)
                    .map(|_| (rng.pick(&uni).clone(), if rng.coin() { Some(rng.below(50) as i32) } else { None }))
                    .collect();
                ops.push(Op::AddNodes(list));
            }
            2 | 3 => {
                let cnt = rng.range(1, 4);
                let mut es = vec![];
                for _ in 0..cnt {
                    let e = draw_edge(rng, &added_edges);
                    added_edges.push(e.clone());
                    es.push(e);
                }
                ops.push(Op::AddEdges(es));
            }
            4 if allow_tuple => {
                let e = draw_edge(rng, &added_edges);
                added_edges.push(MEdge { w: f64::NAN, attr: None, ..e.clone() });
                ops.push(Op::AddEdgeTuple(e.u, e.v));
            }
            5 if allow_tuple => {
                let cnt = rng.range(1, 3);
                let mut es = vec![];
                for _ in 0..cnt {
                    let e = draw_edge(rng, &added_edges);
                    added_edges.push(MEdge { w: f64::NAN, attr: None, ..e.clone() });
                    es.push((e.u, e.v));
                }
                ops.push(Op::AddEdgeTuples(es));
            }
            _ => {
                let e = draw_edge(rng, &added_edges);
                added_edges.push(e.clone());
                ops.push(Op::AddEdge(e));
            }
        }
    }
    (uni, ops)
}

pub fn history_hash(specs: &Specs, ops: &[Op]) -> u64 {
    let s = format!("{}|{}", specs.label(), json!(ops.iter().map(|o| o.json()).collect::<Vec<_>>()));
    fnv(s.as_bytes())
}

// --------------------------------------------------------------------------------------------
// lock-step execution

/// Which monitors run, and under which property id violations are reported.
#[derive(Clone)]
pub struct Monitors {
    pub prop: &'static str,
    /// C01: outcome + state after every call, failed call changes nothing, batch prefix
    pub mutation_semantics: bool,
    /// C02: every query vs the model + snapshot invariants
    pub queries: bool,
    /// C03 (a): traversal lists in the snapshot
    pub traversal: bool,
    /// C09: counts, degrees, density, matrix
    pub counts: bool,
    /// check at every op (else only every 4th and at the end)
    pub every_op: bool,
}

pub struct Lock {
    pub g: G,
    /// candidate models (ambiguity set); empty = diverged
    pub cands: Vec<Model>,
    /// false once the model had to be re-derived from the graph (insertion order unknown)
    pub order_known: bool,
    pub names: Vec<String>,
    /// policy branches this history exercised
    pub tags: BTreeSet<String>,
    /// the very same Arc<Edge> is handed to the graph again when an identical edge is re-added
    pub arcs: std::collections::HashMap<String, std::sync::Arc<graphrs::Edge<String, i32>>>,
}

fn state_matches(g: &G, m: &Model) -> bool {
    let nodes: Vec<(String, Option<i32>)> = g
        .get_all_nodes()
        .iter()
        .map(|n| (n.name.clone(), n.attributes))
        .collect();
    if nodes != m.nodes {
        return false;
    }
    sorted_edge_keys(m.specs.directed, g.get_all_edges()) == m.edge_keys()
}

pub fn model_from_graph(g: &G) -> Model {
    let specs = Specs::from_real(&g.specs);
    Model {
        specs,
        nodes: g
            .get_all_nodes()
            .iter()
            .map(|n| (n.name.clone(), n.attributes))
            .collect(),
        edges: g
            .get_all_edges()
            .iter()
            .map(|e| MEdge::new(&e.u, &e.v, e.weight, e.attributes))
            .collect(),
    }
}

fn dedup_models(v: Vec<(Option<Outcome>, Model)>) -> Vec<(Option<Outcome>, Model)> {
    let mut seen = HashSet::new();
    let mut out = vec![];
    for (o, m) in v {
        let key = format!("{:?}|{}", o, m.key());
        if seen.insert(key) {
            out.push((o, m));
        }
    }
    out
}

/// All (first error or None, resulting model) pairs allowed for an op, over all candidates.
pub fn model_apply(cands: &[Model], op: &Op) -> Vec<(Option<Outcome>, Model)> {
    let mut out = vec![];
    for m in cands {
        match op {
            Op::AddNode(n, a) => {
                let mut x = m.clone();
                x.add_node(n, *a);
                out.push((None, x));
            }
            Op::AddNodes(list) => {
                let mut x = m.clone();
                for (n, a) in list {
                    x.add_node(n, *a);
                }
                out.push((None, x));
            }
            Op::AddEdge(_) | Op::AddEdgeTuple(..) | Op::AddEdges(_) | Op::AddEdgeTuples(_) => {
                let edges: Vec<MEdge> = match op {
                    Op::AddEdge(e) => vec![e.clone()],
                    Op::AddEdgeTuple(u, v) => vec![MEdge::new(u, v, f64::NAN, None)],
                    Op::AddEdges(es) => es.clone(),
                    Op::AddEdgeTuples(ts) => ts.iter().map(|(u, v)| MEdge::new(u, v, f64::NAN, None)).collect(),
                    _ => unreachable!(),
                };
                // frontier of (model) states; an error stops the batch with the prefix applied
                let mut frontier: Vec<Model> = vec![m.clone()];
                for e in &edges {
                    let mut next = vec![];
                    for f in &frontier {
                        for (o, r) in f.add_edge_alternatives(e) {
                            if o == Outcome::Ok {
                                next.push(r);
                            } else {
                                out.push((Some(o), r));
                            }
                        }
                    }
                    let d = dedup_models(next.into_iter().map(|m| (None, m)).collect());
                    frontier = d.into_iter().map(|(_, m)| m).collect();
                }
                for f in frontier {
                    out.push((None, f));
                }
            }
        }
    }
    dedup_models(out)
}

pub fn real_apply(g: &mut G, op: &Op) -> Result<Result<(), graphrs::Error>, ctx::Caught> {
    let mut none = std::collections::HashMap::new();
    real_apply_cached(g, op, &mut none, false)
}

pub fn real_apply_cached(
    g: &mut G,
    op: &Op,
    arcs: &mut std::collections::HashMap<String, std::sync::Arc<graphrs::Edge<String, i32>>>,
    reuse: bool,
) -> Result<Result<(), graphrs::Error>, ctx::Caught> {
    let mut arc_of = |e: &MEdge| -> std::sync::Arc<graphrs::Edge<String, i32>> {
        if !reuse {
            return e.to_real();
        }
        let key = format!("{:?}>{:?}|{}|{:?}", e.u, e.v, wkey(e.w), e.attr);
        if arcs.contains_key(&key) {
            ctx::count("reach:same-arc-passed-again");
        }
        arcs.entry(key).or_insert_with(|| e.to_real()).clone()
    };
    match op {
        Op::AddNode(n, a) => guard("add_node", || {
            g.add_node(mnode(n, *a));
            Ok(())
        }),
        Op::AddNodes(list) => guard("add_nodes", || {
            g.add_nodes(list.iter().map(|(n, a)| mnode(n, *a)).collect());
            Ok(())
        }),
        Op::AddEdge(e) => {
            let a = arc_of(e);
            guard("add_edge", || g.add_edge(a))
        }
        Op::AddEdgeTuple(u, v) => guard("add_edge_tuple", || g.add_edge_tuple(u.clone(), v.clone())),
        Op::AddEdges(es) => {
            let v: Vec<_> = es.iter().map(|e| arc_of(e)).collect();
            guard("add_edges", || g.add_edges(v))
        }
        Op::AddEdgeTuples(ts) => guard("add_edge_tuples", || g.add_edge_tuples(ts.clone())),
    }
}

fn branch_tag(m: &Model, op: &Op, out: &Option<Outcome>, tags: &mut BTreeSet<String>) {
    // reach counters for the policy branches of C01
    let d = if m.specs.directed { "D" } else { "U" };
    let mut count = |s: &str| {
        ctx::count(s);
        tags.insert(s.to_string());
    };
    let count = &mut count;
    if let Some(o) = out {
        count(&format!("branch:{}:rejected:{:?}", d, o));
    }
    if let Op::AddEdge(e) = op {
        if e.is_loop() {
            count(&format!("branch:{}:selfloop:{}", d, if m.specs.self_loops { "stored" } else if m.specs.loops_drop { "dropped" } else { "rejected" }));
        } else {
            let ex = m.edges_between(&e.u, &e.v);
            if !ex.is_empty() && m.has_node(&e.u) {
                let opposite = ex.iter().any(|x| x.u == e.v && x.v == e.u);
                let how = if m.specs.multi { "appended" } else { match m.specs.dedupe { Dedupe::Error => "rejected", Dedupe::KeepFirst => "ignored", Dedupe::KeepLast => "replaced" } };
                count(&format!("branch:{}:duplicate:{}{}", d, how, if opposite && !m.specs.directed { ":opposite-orientation" } else { "" }));
            }
            if !m.has_node(&e.u) || !m.has_node(&e.v) {
                count(&format!("branch:{}:missing-node:{}", d, if m.specs.missing_create { "created" } else { "rejected" }));
            }
        }
    }
    if let Op::AddNode(n, _) = op {
        if m.has_node(n) {
            count("branch:node-readd");
        }
    }
}

/// Executes one op on the real graph and the model, running the C01 monitor if enabled.
/// Returns false if the run should stop (panic inside a mutation).
pub fn step(lock: &mut Lock, op: &Op, mon: &Monitors, opi: usize) -> bool {
    let prop = mon.prop;
    let kind = Specs::from_real(&lock.g.specs).label();
    if lock.cands.is_empty() {
        // diverged earlier: re-derive the model from what the graph itself reports
        lock.cands = vec![model_from_graph(&lock.g)];
        lock.order_known = false;
    }
    let predicted = model_apply(&lock.cands, op);
    if mon.mutation_semantics {
        let c0 = lock.cands[0].clone();
        branch_tag(&c0, op, &predicted[0].0, &mut lock.tags);
        if matches!(op, Op::AddEdges(_) | Op::AddEdgeTuples(_)) {
            if let Some((Some(_), m)) = predicted.iter().find(|(o, _)| o.is_some()) {
                if m.edges.len() > lock.cands[0].edges.len() || m.nodes.len() > lock.cands[0].nodes.len() {
                    ctx::count("branch:failing-batch-with-nonempty-prefix");
                    lock.tags.insert("failing-batch-with-nonempty-prefix".into());
                }
            }
        }
    }
    if mon.traversal {
        if let Op::AddEdge(e) = op {
            let m0 = &lock.cands[0];
            if let Some(prev) = m0.edges_between(&e.u, &e.v).first() {
                if !e.w.is_nan() && !prev.w.is_nan() && m0.has_node(&e.u) {
                    let rel = if e.w < prev.w { "smaller" } else if e.w > prev.w { "larger" } else { "equal" };
                    let pol = if m0.specs.multi { "multi".to_string() } else { format!("{:?}", m0.specs.dedupe) };
                    let t = format!("reach:{}:second-edge-{}:{}", if m0.specs.directed { "D" } else { "U" }, rel, pol);
                    ctx::count(&t);
                    lock.tags.insert(t);
                }
            }
        }
    }
    let may_not_change = predicted.iter().any(|(_, m)| lock.cands.iter().any(|c| c.key() == m.key()));
    let before = if mon.mutation_semantics && may_not_change {
        Some(observation_vector(&lock.g, &lock.names))
    } else {
        None
    };
    let reuse = lock.names.len() % 2 == 0; // half of the histories re-use Arcs of identical edges
    let res = real_apply_cached(&mut lock.g, op, &mut lock.arcs, reuse);
    ctx::eval(1);
    let res = match res {
        Ok(r) => r,
        Err(c) => {
            ctx::violation(
                &format!("{}|{}|{}|{}", prop, op.name(), c.class(), kind_class(&lock.g)),
                &format!("{} panicked", op.name()),
                json!({"op": op.json(), "opi": opi, "caught": c.json(), "specs": kind}),
            );
            return false;
        }
    };
    let outcome = match outcome_of(&res) {
        Ok(Outcome::Ok) => None,
        Ok(o) => Some(o),
        Err(other) => {
            if mon.mutation_semantics {
                ctx::violation(
                    &format!("{}|{}|unexpected-error-kind:{}|{}", prop, op.name(), other, kind_class(&lock.g)),
                    "mutation returned an error kind the specs never dictate",
                    json!({"op": op.json(), "opi": opi, "specs": kind}),
                );
            }
            Some(Outcome::Duplicate) // placeholder, will not match
        }
    };
    let matching: Vec<Model> = predicted
        .iter()
        .filter(|(o, m)| *o == outcome && state_matches(&lock.g, m))
        .map(|(_, m)| m.clone())
        .collect();
    if matching.is_empty() {
        if mon.mutation_semantics {
            let outcome_ok = predicted.iter().any(|(o, _)| *o == outcome);
            let class = if outcome_ok { "wrong-state-after-call" } else { "wrong-outcome" };
            ctx::violation(
                &format!("{}|{}|{}|{}", prop, op.name(), class, kind_class(&lock.g)),
                &format!("{}: {} (specs {})", op.name(), class, kind),
                json!({
                    "op": op.json(), "opi": opi, "specs": kind,
                    "got_outcome": format!("{:?}", res.as_ref().err().map(|e| err_name(&e.kind))),
                    "acceptable": predicted.iter().map(|(o, m)| json!({"outcome": format!("{:?}", o), "model": m.json()})).collect::<Vec<_>>(),
                    "graph_nodes": lock.g.get_all_nodes().iter().map(|n| json!([n.name, n.attributes])).collect::<Vec<_>>(),
                    "graph_edges": sorted_edge_keys(lock.g.specs.directed, lock.g.get_all_edges()),
                }),
            );
        }
        lock.cands = vec![];
    } else {
        // "a failed / ignored call changes nothing": every observable must be as before
        if let Some(b) = before {
            let unchanged_expected = matching.iter().all(|m| lock.cands.iter().any(|c| c.key() == m.key()));
            if unchanged_expected {
                let after = observation_vector(&lock.g, &lock.names);
                ctx::count(if outcome.is_some() { "checked:failed-call-left-graph-unchanged" } else { "checked:ignored-call-left-graph-unchanged" });
                if after != b {
                    let diff: Vec<String> = b
                        .iter()
                        .zip(after.iter())
                        .filter(|(x, y)| x != y)
                        .take(4)
                        .map(|(x, y)| format!("{}  =>  {}", x, y))
                        .collect();
                    ctx::violation(
                        &format!("{}|{}|{}|{}", prop, op.name(), if outcome.is_some() { "failed-call-changed-graph" } else { "ignored-call-changed-graph" }, kind_class(&lock.g)),
                        "a call that must leave the graph as it was changed an observable",
                        json!({"op": op.json(), "opi": opi, "specs": kind, "diff": diff}),
                    );
                }
            }
        }
        lock.cands = matching;
    }
    true
}

pub fn kind_class<A: Clone>(g: &Graph<String, A>) -> String {
    format!(
        "{}{}",
        if g.specs.directed { "directed" } else { "undirected" },
        if g.specs.multi_edges { "-multi" } else { "" }
    )
}

// --------------------------------------------------------------------------------------------
// C02: query coherence against the model

fn names_of(r: Result<Vec<&std::sync::Arc<graphrs::Node<String, i32>>>, graphrs::Error>) -> Result<Vec<String>, ErrorKind> {
    match r {
        Ok(ns) => Ok(ns.iter().map(|n| n.name.clone()).collect()),
        Err(e) => Err(e.kind),
    }
}

fn set_of(v: &[String]) -> BTreeSet<String> {
    v.iter().cloned().collect()
}

struct QCheck<'a> {
    prop: &'static str,
    kind: String,
    failures: Vec<(String, String, Value)>,
    g: &'a G,
}

impl<'a> QCheck<'a> {
    fn fail(&mut self, func: &str, class: &str, detail: Value) {
        self.failures.push((func.to_string(), class.to_string(), detail));
    }
    fn expect_err(&mut self, func: &str, got: Option<&ErrorKind>, acceptable: &[&str], args: Value) {
        match got {
            Some(k) if acceptable.contains(&err_name(k)) => {}
            Some(k) => self.fail(func, &format!("wrong-error:{}", err_name(k)), json!({"args": args, "acceptable": acceptable})),
            None => self.fail(func, "answer-instead-of-error", json!({"args": args, "acceptable": acceptable})),
        }
    }
}

/// Compares every read query with the answer computed from the model. Returns the number of
/// oracle evaluations performed. Violations are reported under `prop`.
/// true when no two keys are equal (equal parallel edges cannot be told apart, so their mutual
/// order is unobservable)
fn distinct_keys(v: &[&String]) -> bool {
    let s: BTreeSet<&&String> = v.iter().collect();
    s.len() == v.len()
}

pub fn check_queries(g: &G, m: &Model, names: &[String], order_known: bool, prop: &'static str) -> u64 {
    let mut evals = 0u64;
    let d = m.specs.directed;
    let mut q = QCheck { prop, kind: kind_class(g), failures: vec![], g };
    macro_rules! call {
        ($name:expr, $e:expr) => {{
            evals += 1;
            match guard($name, || $e) {
                Ok(v) => Some(v),
                Err(c) => {
                    q.fail($name, &c.class(), c.json());
                    None
                }
            }
        }};
    }
    // whole-graph views
    if let Some(nodes) = call!("get_all_nodes", g.get_all_nodes().iter().map(|n| (n.name.clone(), n.attributes)).collect::<Vec<_>>()) {
        if nodes != m.nodes {
            q.fail("get_all_nodes", "differs-from-node-list", json!({"got": format!("{:?}", nodes), "want": format!("{:?}", m.nodes)}));
        }
    }
    if let Some(nn) = call!("get_all_node_names", g.get_all_node_names().into_iter().cloned().collect::<Vec<_>>()) {
        if nn != m.nodes.iter().map(|x| x.0.clone()).collect::<Vec<_>>() {
            q.fail("get_all_node_names", "differs-from-node-list", json!({"got": nn}));
        }
    }
    // the kind checks every algorithm relies on describe the same graph as the specs and the
    // edge list do
    {
        let all_weighted = m.edges.iter().all(|e| !e.w.is_nan());
        if let Some(h) = call!("edges_have_weight", g.edges_have_weight()) {
            if h != all_weighted {
                q.fail("edges_have_weight", "differs-from-edge-list", json!({"got": h, "want": all_weighted}));
            }
        }
        let kinds: [(&'static str, Option<Result<(), graphrs::ErrorKind>>, bool, &str); 4] = [
            ("ensure_directed", call!("ensure_directed", g.ensure_directed().map_err(|e| e.kind)), d, "WrongMethod"),
            ("ensure_undirected", call!("ensure_undirected", g.ensure_undirected().map_err(|e| e.kind)), !d, "WrongMethod"),
            ("ensure_not_multi_edges", call!("ensure_not_multi_edges", g.ensure_not_multi_edges().map_err(|e| e.kind)), !m.specs.multi, "WrongMethod"),
            ("ensure_weighted", call!("ensure_weighted", g.ensure_weighted().map_err(|e| e.kind)), all_weighted, "EdgeWeightNotSpecified"),
        ];
        for (fname, r, want_ok, want_err) in kinds {
            if let Some(r) = r {
                match (&r, want_ok) {
                    (Ok(()), true) => {}
                    (Err(k), false) if err_name(k) == want_err => {}
                    _ => q.fail(fname, "disagrees-with-specs-or-edge-list", json!({"got": format!("{:?}", r.as_ref().map_err(err_name)), "should_be_ok": want_ok})),
                }
            }
        }
    }
    if let Some(n) = call!("number_of_nodes", g.number_of_nodes()) {
        if n != m.nodes.len() {
            q.fail("number_of_nodes", "wrong-count", json!({"got": n, "want": m.nodes.len()}));
        }
    }
    let all_keys = m.edge_keys();
    if let Some(keys) = call!("get_all_edges", sorted_edge_keys(d, g.get_all_edges())) {
        if keys != all_keys {
            q.fail("get_all_edges", "differs-from-edge-multiset", json!({"got": keys, "want": all_keys}));
        }
    }
    // maps
    if let Some(sm) = call!("get_successors_map", g.get_successors_map().clone()) {
        for (k, v) in &sm {
            if !m.has_node(k) {
                q.fail("get_successors_map", "key-not-a-node", json!({"key": k}));
            } else if v.iter().cloned().collect::<BTreeSet<_>>() != m.succ(k) {
                q.fail("get_successors_map", "wrong-successor-set", json!({"node": k, "got": format!("{:?}", v), "want": format!("{:?}", m.succ(k))}));
            }
        }
        for (n, _) in &m.nodes {
            if !m.succ(n).is_empty() && !sm.contains_key(n) {
                q.fail("get_successors_map", "missing-key", json!({"node": n}));
            }
        }
    }
    if let Some(pm) = call!("get_predecessors_map", g.get_predecessors_map().clone()) {
        for (k, v) in &pm {
            if !m.has_node(k) {
                q.fail("get_predecessors_map", "key-not-a-node", json!({"key": k}));
            } else if v.iter().cloned().collect::<BTreeSet<_>>() != m.pred(k) {
                q.fail("get_predecessors_map", "wrong-predecessor-set", json!({"node": k, "got": format!("{:?}", v), "want": format!("{:?}", m.pred(k))}));
            }
        }
        for (n, _) in &m.nodes {
            if !m.pred(n).is_empty() && !pm.contains_key(n) {
                q.fail("get_predecessors_map", "missing-key", json!({"node": n}));
            }
        }
    }
    // positions
    for i in 0..(m.nodes.len() + 2) {
        if let Some(r) = call!("get_node_by_index", g.get_node_by_index(&i).map(|n| (n.name.clone(), n.attributes))) {
            let want = m.nodes.get(i).cloned();
            if r != want {
                q.fail("get_node_by_index", "wrong-node", json!({"index": i, "got": format!("{:?}", r), "want": format!("{:?}", want)}));
            }
        }
    }
    // per-name queries
    for u in names {
        let present = m.has_node(u);
        if let Some(h) = call!("has_node", g.has_node(u)) {
            if h != present {
                q.fail("has_node", "wrong-answer", json!({"node": u, "got": h}));
            }
        }
        if let Some(r) = call!("get_node", g.get_node(u.clone()).map(|n| (n.name.clone(), n.attributes))) {
            let want = m.nodes.iter().find(|x| &x.0 == u).cloned();
            if r != want {
                q.fail("get_node", "wrong-node", json!({"node": u, "got": format!("{:?}", r), "want": format!("{:?}", want)}));
            }
        }
        // incident edges
        let inc: Vec<String> = {
            let mut v: Vec<String> = m.edges.iter().filter(|e| &e.u == u || &e.v == u).map(|e| ekey(d, &e.u, &e.v, e.w, &e.attr)).collect();
            v.sort();
            v
        };
        if let Some(r) = call!("get_edges_for_node", g.get_edges_for_node(u.clone()).map(|es| sorted_edge_keys(d, es)).map_err(|e| e.kind)) {
            match (present, r) {
                (false, r) => q.expect_err("get_edges_for_node", r.as_ref().err(), &["NodeNotFound"], json!(u)),
                (true, Ok(keys)) => {
                    if keys != inc {
                        q.fail("get_edges_for_node", "differs-from-edge-multiset", json!({"node": u, "got": keys, "want": inc}));
                    }
                }
                (true, Err(k)) => q.fail("get_edges_for_node", &format!("error-on-existing-node:{}", err_name(&k)), json!(u)),
            }
        }
        // on a multi-edge graph the parallel edges of each pair come in insertion order, also
        // inside the per-node lists (the order of the pairs among each other is not fixed)
        if m.specs.multi && present {
            for which in 0..3 {
                if which > 0 && !d {
                    continue;
                }
                let fname: &'static str = ["get_edges_for_node", "get_in_edges_for_node", "get_out_edges_for_node"][which];
                let listed = match which {
                    0 => call!("get_edges_for_node", g.get_edges_for_node(u.clone()).map(|es| es.iter().map(|e| real_edge_key(d, e)).collect::<Vec<_>>()).map_err(|e| e.kind)),
                    1 => call!("get_in_edges_for_node", g.get_in_edges_for_node(u.clone()).map(|es| es.iter().map(|e| real_edge_key(d, e)).collect::<Vec<_>>()).map_err(|e| e.kind)),
                    _ => call!("get_out_edges_for_node", g.get_out_edges_for_node(u.clone()).map(|es| es.iter().map(|e| real_edge_key(d, e)).collect::<Vec<_>>()).map_err(|e| e.kind)),
                };
                if let Some(Ok(keys)) = listed {
                    if keys.len() > 20 {
                        ctx::count("reach:per-node-edge-list-longer-than-20");
                    }
                    for v in names {
                        let between: Vec<String> = m
                            .edges
                            .iter()
                            .filter(|e| match which {
                                0 => (&e.u == u && &e.v == v) || (&e.u == v && &e.v == u),
                                1 => &e.v == u && &e.u == v,
                                _ => &e.u == u && &e.v == v,
                            })
                            .map(|e| ekey(d, &e.u, &e.v, e.w, &e.attr))
                            .collect();
                        if between.len() < 2 {
                            continue;
                        }
                        // on a directed graph u->v and v->u are different pairs: keep them apart
                        let dir_ok = |k: &String| !d || which != 0 || true;
                        let _ = dir_ok;
                        let set: BTreeSet<&String> = between.iter().collect();
                        let got_seq: Vec<&String> = keys.iter().filter(|k| set.contains(k)).collect();
                        let mut want_seq: Vec<&String> = between.iter().collect();
                        if d && which == 0 {
                            // both directions are listed; compare each direction's own order
                            let fwd: Vec<&String> = m.edges.iter().filter(|e| &e.u == u && &e.v == v).map(|e| between.iter().find(|b| **b == ekey(d, &e.u, &e.v, e.w, &e.attr)).unwrap()).collect();
                            let got_fwd: Vec<&String> = got_seq.iter().copied().filter(|k| fwd.contains(k)).collect();
                            want_seq = fwd;
                            if got_fwd != want_seq && distinct_keys(&want_seq) {
                                q.fail(fname, "parallel-edges-out-of-insertion-order", json!({"node": u, "other": v, "got": got_fwd, "want": want_seq}));
                            }
                            continue;
                        }
                        if got_seq != want_seq && distinct_keys(&want_seq) {
                            q.fail(fname, "parallel-edges-out-of-insertion-order", json!({"node": u, "other": v, "got": got_seq, "want": want_seq}));
                        }
                    }
                }
            }
        }
        let ins: Vec<String> = {
            let mut v: Vec<String> = m.edges.iter().filter(|e| &e.v == u).map(|e| ekey(d, &e.u, &e.v, e.w, &e.attr)).collect();
            v.sort();
            v
        };
        let outs: Vec<String> = {
            let mut v: Vec<String> = m.edges.iter().filter(|e| &e.u == u).map(|e| ekey(d, &e.u, &e.v, e.w, &e.attr)).collect();
            v.sort();
            v
        };
        for (fname, want, which) in [("get_in_edges_for_node", &ins, 0), ("get_out_edges_for_node", &outs, 1)] {
            let r = if which == 0 {
                call!("get_in_edges_for_node", g.get_in_edges_for_node(u.clone()).map(|es| sorted_edge_keys(d, es)).map_err(|e| e.kind))
            } else {
                call!("get_out_edges_for_node", g.get_out_edges_for_node(u.clone()).map(|es| sorted_edge_keys(d, es)).map_err(|e| e.kind))
            };
            if let Some(r) = r {
                if !d {
                    let acc: &[&str] = if present { &["WrongMethod"] } else { &["WrongMethod", "NodeNotFound"] };
                    q.expect_err(fname, r.as_ref().err(), acc, json!(u));
                    ctx::count("guard:in-out-edges-on-undirected");
                } else if !present {
                    q.expect_err(fname, r.as_ref().err(), &["NodeNotFound"], json!(u));
                } else {
                    match r {
                        Ok(keys) => {
                            if &keys != want {
                                q.fail(fname, "differs-from-edge-multiset", json!({"node": u, "got": keys, "want": want}));
                            }
                        }
                        Err(k) => q.fail(fname, &format!("error-on-existing-node:{}", err_name(&k)), json!(u)),
                    }
                }
            }
        }
        // neighbours / successors / predecessors
        if let Some(r) = call!("get_neighbor_nodes", names_of(g.get_neighbor_nodes(u.clone()))) {
            match (present, r) {
                (false, r) => q.expect_err("get_neighbor_nodes", r.as_ref().err(), &["NodeNotFound"], json!(u)),
                (true, Ok(v)) => {
                    if set_of(&v) != m.neighbors(u) || v.len() != set_of(&v).len() {
                        q.fail("get_neighbor_nodes", "wrong-neighbour-set", json!({"node": u, "got": v, "want": format!("{:?}", m.neighbors(u))}));
                    }
                }
                (true, Err(k)) => q.fail("get_neighbor_nodes", &format!("error-on-existing-node:{}", err_name(&k)), json!(u)),
            }
        }
        for which in 0..4 {
            let (fname, want): (&'static str, BTreeSet<String>) = match which {
                0 => ("get_successor_nodes", m.succ(u)),
                1 => ("get_predecessor_nodes", m.pred(u)),
                2 => ("get_successor_node_names", m.succ(u)),
                _ => ("get_predecessor_node_names", m.pred(u)),
            };
            let r = match which {
                0 => call!("get_successor_nodes", names_of(g.get_successor_nodes(u.clone()))),
                1 => call!("get_predecessor_nodes", names_of(g.get_predecessor_nodes(u.clone()))),
                2 => call!("get_successor_node_names", g.get_successor_node_names(u.clone()).map(|v| v.into_iter().cloned().collect::<Vec<_>>()).map_err(|e| e.kind)),
                _ => call!("get_predecessor_node_names", g.get_predecessor_node_names(u.clone()).map(|v| v.into_iter().cloned().collect::<Vec<_>>()).map_err(|e| e.kind)),
            };
            if let Some(r) = r {
                if !d {
                    let acc: &[&str] = if present { &["WrongMethod"] } else { &["WrongMethod", "NodeNotFound"] };
                    q.expect_err(fname, r.as_ref().err(), acc, json!(u));
                    ctx::count("guard:succ-pred-on-undirected");
                } else if !present {
                    q.expect_err(fname, r.as_ref().err(), &["NodeNotFound"], json!(u));
                } else {
                    match r {
                        Ok(v) => {
                            if set_of(&v) != want || v.len() != want.len() {
                                q.fail(fname, "wrong-node-set", json!({"node": u, "got": v, "want": format!("{:?}", want)}));
                            }
                        }
                        Err(k) => q.fail(fname, &format!("error-on-existing-node:{}", err_name(&k)), json!(u)),
                    }
                }
            }
        }
        if present {
            if let Some(v) = call!("get_successors_or_neighbors", g.get_successors_or_neighbors(u.clone()).iter().map(|n| n.name.clone()).collect::<Vec<_>>()) {
                let want = m.succ(u);
                if set_of(&v) != want || v.len() != want.len() {
                    q.fail("get_successors_or_neighbors", "wrong-node-set", json!({"node": u, "got": v, "want": format!("{:?}", want)}));
                }
            }
            if let Some(v) = call!("breadth_first_search", g.breadth_first_search(u)) {
                let want = m.reachable(u);
                if v.first() != Some(u) || set_of(&v) != want || v.len() != want.len() {
                    q.fail("breadth_first_search", "wrong-reachability", json!({"start": u, "got": v, "want": format!("{:?}", want)}));
                }
            }
        }
        // pair queries: every ordered pair, symmetry checked explicitly on undirected graphs
        for v in names {
            let both = present && m.has_node(v);
            let between = m.edges_between(u, v);
            // get_edge
            if let Some(r) = call!("get_edge", g.get_edge(u.clone(), v.clone()).map(|e| real_edge_key(d, e)).map_err(|e| e.kind)) {
                if m.specs.multi {
                    let acc: &[&str] = if both { &["WrongMethod"] } else { &["WrongMethod", "NodeNotFound"] };
                    q.expect_err("get_edge", r.as_ref().err(), acc, json!([u, v]));
                    ctx::count("guard:get_edge-on-multi");
                } else if !both {
                    q.expect_err("get_edge", r.as_ref().err(), &["NodeNotFound"], json!([u, v]));
                } else if between.is_empty() {
                    q.expect_err("get_edge", r.as_ref().err(), &["EdgeNotFound"], json!([u, v]));
                } else {
                    let want = ekey(d, &between[0].u, &between[0].v, between[0].w, &between[0].attr);
                    match r {
                        Ok(k) if k == want => {}
                        Ok(k) => q.fail("get_edge", "wrong-edge", json!({"pair": [u, v], "got": k, "want": want})),
                        Err(k) => q.fail("get_edge", &format!("stored-edge-not-found:{}", err_name(&k)), json!({"pair": [u, v], "want": want})),
                    }
                    if !d && u > v {
                        ctx::count("reach:undirected-pair-query-against-name-order");
                    }
                }
            }
            // get_edges
            if let Some(r) = call!("get_edges", g.get_edges(u.clone(), v.clone()).map(|es| es.iter().map(|e| real_edge_key(d, e)).collect::<Vec<_>>()).map_err(|e| e.kind)) {
                if !m.specs.multi {
                    let acc: &[&str] = if both { &["WrongMethod"] } else { &["WrongMethod", "NodeNotFound"] };
                    q.expect_err("get_edges", r.as_ref().err(), acc, json!([u, v]));
                    ctx::count("guard:get_edges-on-single");
                } else if !both {
                    q.expect_err("get_edges", r.as_ref().err(), &["NodeNotFound"], json!([u, v]));
                } else if between.is_empty() {
                    q.expect_err("get_edges", r.as_ref().err(), &["EdgeNotFound"], json!([u, v]));
                } else {
                    let want: Vec<String> = between.iter().map(|e| ekey(d, &e.u, &e.v, e.w, &e.attr)).collect();
                    if between.len() >= 3 {
                        ctx::count("reach:pair-with-3-or-more-parallel-edges");
                    }
                    match r {
                        Ok(k) => {
                            let ok = if order_known {
                                k == want
                            } else {
                                let (mut a, mut b) = (k.clone(), want.clone());
                                a.sort();
                                b.sort();
                                a == b
                            };
                            if !ok {
                                q.fail("get_edges", "wrong-parallel-edges-or-order", json!({"pair": [u, v], "got": k, "want": want, "order_checked": order_known}));
                            }
                        }
                        Err(k) => q.fail("get_edges", &format!("stored-edges-not-found:{}", err_name(&k)), json!({"pair": [u, v]})),
                    }
                }
            }
        }
    }
    // node-set queries: every subset of at most 3 names (names has <= 7 entries)
    let nn = names.len();
    for mask in 0u32..(1u32 << nn) {
        if mask.count_ones() > 3 {
            continue;
        }
        // mask 0 is the empty request: vacuously "all present", no edges - and still the wrong
        // kind of graph for the in/out variants on an undirected graph
        let subset: Vec<String> = (0..nn).filter(|i| mask & (1 << i) != 0).map(|i| names[i].clone()).collect();
        if subset.is_empty() {
            ctx::count("reach:empty-node-set-query");
        }
        let all_present = subset.iter().all(|s| m.has_node(s));
        let sset: BTreeSet<&String> = subset.iter().collect();
        if let Some(h) = call!("has_nodes", g.has_nodes(&subset)) {
            if h != all_present {
                q.fail("has_nodes", "wrong-answer", json!({"set": subset, "got": h}));
            }
        }
        let want_any: Vec<String> = {
            let mut v: Vec<String> = m.edges.iter().filter(|e| sset.contains(&e.u) || sset.contains(&e.v)).map(|e| ekey(d, &e.u, &e.v, e.w, &e.attr)).collect();
            v.sort();
            v
        };
        if let Some(r) = call!("get_edges_for_nodes", g.get_edges_for_nodes(&subset).map(|es| sorted_edge_keys(d, es)).map_err(|e| e.kind)) {
            if !all_present {
                q.expect_err("get_edges_for_nodes", r.as_ref().err(), &["NodeNotFound"], json!(subset));
            } else {
                match r {
                    Ok(k) if k == want_any => {}
                    Ok(k) => q.fail("get_edges_for_nodes", "differs-from-edge-multiset", json!({"set": subset, "got": k, "want": want_any})),
                    Err(k) => q.fail("get_edges_for_nodes", &format!("error-on-existing-nodes:{}", err_name(&k)), json!(subset)),
                }
            }
        }
        for which in 0..2 {
            let fname: &'static str = if which == 0 { "get_in_edges_for_nodes" } else { "get_out_edges_for_nodes" };
            let want: Vec<String> = {
                let mut v: Vec<String> = m
                    .edges
                    .iter()
                    .filter(|e| if which == 0 { sset.contains(&e.v) } else { sset.contains(&e.u) })
                    .map(|e| ekey(d, &e.u, &e.v, e.w, &e.attr))
                    .collect();
                v.sort();
                v
            };
            let r = if which == 0 {
                call!("get_in_edges_for_nodes", g.get_in_edges_for_nodes(&subset).map(|es| sorted_edge_keys(d, es)).map_err(|e| e.kind))
            } else {
                call!("get_out_edges_for_nodes", g.get_out_edges_for_nodes(&subset).map(|es| sorted_edge_keys(d, es)).map_err(|e| e.kind))
            };
            if let Some(r) = r {
                if !d {
                    let acc: &[&str] = if all_present { &["WrongMethod"] } else { &["WrongMethod", "NodeNotFound"] };
                    q.expect_err(fname, r.as_ref().err(), acc, json!(subset));
                } else if !all_present {
                    q.expect_err(fname, r.as_ref().err(), &["NodeNotFound"], json!(subset));
                } else {
                    match r {
                        Ok(k) if k == want => {}
                        Ok(k) => q.fail(fname, "differs-from-edge-multiset", json!({"set": subset, "got": k, "want": want})),
                        Err(k) => q.fail(fname, &format!("error-on-existing-nodes:{}", err_name(&k)), json!(subset)),
                    }
                }
            }
        }
    }
    // node lists with repeated names, also longer than the node list itself
    if nn >= 2 {
        let lists: Vec<Vec<String>> = vec![
            vec![names[0].clone(), names[1].clone(), names[0].clone()],
            std::iter::repeat(names[0].clone()).take(m.nodes.len() + 2).collect(),
            (0..(m.nodes.len() + 3)).map(|i| names[i % 2].clone()).collect(),
        ];
        for list in lists {
            let all_present = list.iter().all(|s| m.has_node(s));
            let sset: BTreeSet<&String> = list.iter().collect();
            ctx::count("reach:node-list-with-repeated-names");
            if let Some(h) = call!("has_nodes", g.has_nodes(&list)) {
                if h != all_present {
                    q.fail("has_nodes", "wrong-answer-for-list-with-repeats", json!({"list": list, "got": h}));
                }
            }
            let want_any: Vec<String> = {
                let mut v: Vec<String> = m.edges.iter().filter(|e| sset.contains(&e.u) || sset.contains(&e.v)).map(|e| ekey(d, &e.u, &e.v, e.w, &e.attr)).collect();
                v.sort();
                v
            };
            if let Some(r) = call!("get_edges_for_nodes", g.get_edges_for_nodes(&list).map(|es| sorted_edge_keys(d, es)).map_err(|e| e.kind)) {
                if !all_present {
                    q.expect_err("get_edges_for_nodes", r.as_ref().err(), &["NodeNotFound"], json!(list));
                } else {
                    match r {
                        Ok(k) if k == want_any => {}
                        Ok(k) => q.fail("get_edges_for_nodes", "differs-from-edge-multiset-for-list-with-repeats", json!({"list": list, "got": k, "want": want_any})),
                        Err(k) => q.fail("get_edges_for_nodes", &format!("error-on-existing-nodes:{}", err_name(&k)), json!(list)),
                    }
                }
            }
            if d && all_present {
                let want_in: Vec<String> = {
                    let mut v: Vec<String> = m.edges.iter().filter(|e| sset.contains(&e.v)).map(|e| ekey(d, &e.u, &e.v, e.w, &e.attr)).collect();
                    v.sort();
                    v
                };
                if let Some(Ok(k)) = call!("get_in_edges_for_nodes", g.get_in_edges_for_nodes(&list).map(|es| sorted_edge_keys(d, es)).map_err(|e| e.kind)) {
                    if k != want_in {
                        q.fail("get_in_edges_for_nodes", "differs-from-edge-multiset-for-list-with-repeats", json!({"list": list}));
                    }
                } else {
                    q.fail("get_in_edges_for_nodes", "error-for-list-with-repeats", json!({"list": list}));
                }
            }
        }
    }
    // undirected graphs where name order != position order for some stored edge
    if !d {
        let pos: BTreeMap<&String, usize> = m.nodes.iter().enumerate().map(|(i, n)| (&n.0, i)).collect();
        if m.edges.iter().any(|e| e.u != e.v && ((e.u < e.v) != (pos[&e.u] < pos[&e.v]))) {
            ctx::count("reach:undirected-edge-with-name-order-differing-from-position-order");
        }
    }
    let fails = std::mem::take(&mut q.failures);
    for (func, class, detail) in fails {
        ctx::violation(
            &format!("{}|{}|{}|{}", q.prop, func, class, q.kind),
            &format!("{}: {}", func, class),
            json!({"detail": detail, "model": m.json(), "specs": Specs::from_real(&q.g.specs).label()}),
        );
    }
    evals
}

// --------------------------------------------------------------------------------------------
// snapshot invariants (C02) and traversal lists (C03)

pub fn check_snapshot_indexes(g: &G, m: &Model, order_known: bool, prop: &'static str) -> u64 {
    check_snapshot_indexes_sel(g, m, order_known, prop, false)
}

/// `adjacency_only`: only I3 (the neighbour sets by name and by position that the algorithms
/// traverse) - used by the C03 monitor
pub fn check_snapshot_indexes_sel(g: &G, m: &Model, order_known: bool, prop: &'static str, adjacency_only: bool) -> u64 {
    let snap = g.verif_snapshot();
    let d = m.specs.directed;
    let kind = kind_class(g);
    let mut fails: Vec<(String, Value)> = vec![];
    // I1 node indexes
    let nv: Vec<(String, Option<i32>)> = snap.nodes_vec.clone();
    if adjacency_only && nv != m.nodes {
        return 0; // node list itself is off: C01/C02's business
    }
    if nv != m.nodes {
        fails.push(("I1:nodes_vec-differs-from-node-list".into(), json!({"got": format!("{:?}", nv)})));
    }
    if snap.nodes_map.len() != nv.len() || snap.nodes_map.iter().any(|(name, i)| nv.get(*i).map(|x| &x.0) != Some(name)) {
        fails.push(("I1:nodes_map-not-inverse-of-nodes_vec".into(), json!({"nodes_map": format!("{:?}", snap.nodes_map)})));
    }
    if snap.nodes_map_rev.len() != nv.len() || snap.nodes_map_rev.iter().any(|(i, name, attr)| nv.get(*i) != Some(&(name.clone(), *attr))) {
        fails.push(("I1:nodes_map_rev-differs-from-nodes_vec".into(), json!({"nodes_map_rev": format!("{:?}", snap.nodes_map_rev)})));
    }
    let pos = |name: &str| m.node_index(name);
    // I2 the two edge stores
    let mut seen_pairs: HashSet<(String, String)> = HashSet::new();
    let mut total = 0usize;
    for ((a, b), list) in &snap.edges {
        let canon = if !d && a > b { (b.clone(), a.clone()) } else { (a.clone(), b.clone()) };
        if !seen_pairs.insert(canon) {
            fails.push(("I2:name-keyed-store-has-two-keys-for-one-pair".into(), json!([a, b])));
        }
        let want: Vec<String> = m.edges_between(a, b).iter().map(|e| ekey(d, &e.u, &e.v, e.w, &e.attr)).collect();
        let got: Vec<String> = list.iter().map(|e| ekey(d, &e.u, &e.v, e.weight, &e.attributes)).collect();
        total += got.len();
        let same = if order_known { got == want } else {
            let (mut x, mut y) = (got.clone(), want.clone());
            x.sort();
            y.sort();
            x == y
        };
        if !same || got.is_empty() {
            fails.push(("I2:name-keyed-store-list-differs".into(), json!({"key": [a, b], "got": got, "want": want})));
        }
        if list.iter().any(|e| !((e.u == *a && e.v == *b) || (!d && e.u == *b && e.v == *a))) {
            fails.push(("I2:name-keyed-store-edge-under-wrong-key".into(), json!([a, b])));
        }
    }
    if total != m.edges.len() {
        fails.push(("I2:name-keyed-store-wrong-total".into(), json!({"got": total, "want": m.edges.len()})));
    }
    let mut seen_ipairs: HashSet<(usize, usize)> = HashSet::new();
    let mut total_i = 0usize;
    for ((i, j), list) in &snap.edges_map {
        let canon = if !d && i > j { (*j, *i) } else { (*i, *j) };
        if !seen_ipairs.insert(canon) {
            fails.push(("I2:position-keyed-store-has-two-keys-for-one-pair".into(), json!([i, j])));
        }
        let (a, b) = match (m.nodes.get(*i), m.nodes.get(*j)) {
            (Some(a), Some(b)) => (a.0.clone(), b.0.clone()),
            _ => {
                fails.push(("I2:position-keyed-store-key-out-of-range".into(), json!([i, j])));
                continue;
            }
        };
        let want: Vec<String> = m.edges_between(&a, &b).iter().map(|e| ekey(d, &e.u, &e.v, e.w, &e.attr)).collect();
        let got: Vec<String> = list.iter().map(|e| ekey(d, &e.u, &e.v, e.weight, &e.attributes)).collect();
        total_i += got.len();
        let same = if order_known { got == want } else {
            let (mut x, mut y) = (got.clone(), want.clone());
            x.sort();
            y.sort();
            x == y
        };
        if !same || got.is_empty() {
            fails.push(("I2:position-keyed-store-list-differs".into(), json!({"key": [i, j], "names": [a, b], "got": got, "want": want})));
        }
    }
    if total_i != m.edges.len() {
        fails.push(("I2:position-keyed-store-wrong-total".into(), json!({"got": total_i, "want": m.edges.len()})));
    }
    // I3 adjacency sets by name and by position
    let chk_rel = |label: &str, got: &Vec<(String, Vec<String>)>, want: &dyn Fn(&str) -> BTreeSet<String>, fails: &mut Vec<(String, Value)>| {
        let mut keys = HashSet::new();
        for (k, v) in got {
            keys.insert(k.clone());
            let gs: BTreeSet<String> = v.iter().cloned().collect();
            if !m.has_node(k) || gs != want(k) {
                fails.push((format!("I3:{}-differs-from-edge-relation", label), json!({"node": k, "got": format!("{:?}", gs), "want": format!("{:?}", want(k))})));
            }
        }
        for (n, _) in &m.nodes {
            if !keys.contains(n) && !want(n).is_empty() {
                fails.push((format!("I3:{}-missing-key", label), json!({"node": n})));
            }
        }
    };
    chk_rel("successors", &snap.successors, &|x| m.succ(x), &mut fails);
    chk_rel("predecessors", &snap.predecessors, &|x| m.pred(x), &mut fails);
    let chk_irel = |label: &str, got: &Vec<(usize, Vec<usize>)>, want: &dyn Fn(&str) -> BTreeSet<String>, fails: &mut Vec<(String, Value)>| {
        let mut keys = HashSet::new();
        for (k, v) in got {
            keys.insert(*k);
            let name = match m.nodes.get(*k) {
                Some(n) => n.0.clone(),
                None => {
                    fails.push((format!("I3:{}-key-out-of-range", label), json!(k)));
                    continue;
                }
            };
            let w: BTreeSet<usize> = want(&name).iter().map(|s| pos(s).unwrap()).collect();
            let gs: BTreeSet<usize> = v.iter().copied().collect();
            if gs != w {
                fails.push((format!("I3:{}-differs-from-edge-relation", label), json!({"node": name, "got": format!("{:?}", gs), "want": format!("{:?}", w)})));
            }
        }
        for (i, (n, _)) in m.nodes.iter().enumerate() {
            if !keys.contains(&i) && !want(n).is_empty() {
                fails.push((format!("I3:{}-missing-key", label), json!({"node": n})));
            }
        }
    };
    chk_irel("successors_map", &snap.successors_map, &|x| m.succ(x), &mut fails);
    chk_irel("predecessors_map", &snap.predecessors_map, &|x| m.pred(x), &mut fails);
    // I5 lengths
    if snap.successors_vec.len() != m.nodes.len() || snap.predecessors_vec.len() != m.nodes.len() {
        fails.push(("I5:traversal-list-count-differs-from-node-count".into(), json!({"succ": snap.successors_vec.len(), "pred": snap.predecessors_vec.len(), "n": m.nodes.len()})));
    }
    let n = fails.len();
    for (class, detail) in fails {
        if adjacency_only && !class.starts_with("I3:") {
            continue;
        }
        ctx::violation(
            &format!("{}|snapshot|{}|{}", prop, class, kind),
            &format!("private indexes disagree: {}", class),
            json!({"detail": detail, "model": m.json()}),
        );
    }
    let _ = n;
    12
}

/// C03 (a): the traversal lists hold exactly the stored neighbours with the minimum stored weight.
pub fn check_traversal_lists(g: &G, m: &Model, prop: &'static str) -> u64 {
    let snap = g.verif_snapshot();
    let d = m.specs.directed;
    let kind = kind_class(g);
    let n = m.nodes.len();
    if snap.successors_vec.len() != n || snap.predecessors_vec.len() != n {
        ctx::violation(
            &format!("{}|snapshot|traversal-list-count|{}", prop, kind),
            "number of traversal lists differs from the number of nodes",
            json!({"succ": snap.successors_vec.len(), "pred": snap.predecessors_vec.len(), "n": n}),
        );
        return 1;
    }
    // the property quantifies over uniformly weighted or uniformly unweighted edges
    let nan = m.edges.iter().filter(|e| e.w.is_nan()).count();
    if nan != 0 && nan != m.edges.len() {
        ctx::count("skipped:traversal-check-on-mixed-weights");
        return 0;
    }
    // weights are compared by value (-0.0 == 0.0), NaN as one class
    let wkey = |w: f64| if w.is_nan() { "nan".to_string() } else { format!("{:016x}", (w + 0.0).to_bits()) };
    let mut evals = 0;
    for i in 0..n {
        let name = &m.nodes[i].0;
        // successors
        let want: BTreeSet<(usize, String)> = m
            .succ(name)
            .iter()
            .map(|v| (m.node_index(v).unwrap(), wkey(m.min_weight(name, v).unwrap())))
            .collect();
        let got: BTreeSet<(usize, String)> = snap.successors_vec[i].iter().map(|(j, w)| (*j, wkey(*w))).collect();
        evals += 1;
        if got != want {
            let stale = got.iter().map(|x| x.0).collect::<BTreeSet<_>>() == want.iter().map(|x| x.0).collect::<BTreeSet<_>>();
            ctx::violation(
                &format!("{}|successors_vec|{}|{}", prop, if stale { "stale-weight" } else { "wrong-neighbours" }, kind),
                "successor traversal list differs from the stored edges",
                json!({"node": name, "got": format!("{:?}", snap.successors_vec[i]), "want": format!("{:?}", want), "model": m.json()}),
            );
        }
        // predecessors
        let wantp: BTreeSet<(usize, String)> = if d {
            m.pred(name)
                .iter()
                .map(|v| (m.node_index(v).unwrap(), wkey(m.min_weight(v, name).unwrap())))
                .collect()
        } else {
            want.clone()
        };
        let gotp: BTreeSet<(usize, String)> = snap.predecessors_vec[i].iter().map(|(j, w)| (*j, wkey(*w))).collect();
        evals += 1;
        let okp = if d { gotp == wantp } else { gotp.is_empty() || gotp == wantp };
        if !okp {
            let stale = gotp.iter().map(|x| x.0).collect::<BTreeSet<_>>() == wantp.iter().map(|x| x.0).collect::<BTreeSet<_>>();
            ctx::violation(
                &format!("{}|predecessors_vec|{}|{}", prop, if stale { "stale-weight" } else { "wrong-neighbours" }, kind),
                "predecessor traversal list differs from the stored edges",
                json!({"node": name, "got": format!("{:?}", snap.predecessors_vec[i]), "want": format!("{:?}", wantp), "model": m.json()}),
            );
        }
    }
    evals
}

/// Runs a history under the given monitors. Returns the final lock state.
pub fn run_history(specs: Specs, names: &[String], ops: &[Op], mon: &Monitors) -> Lock {
    let mut all_names: Vec<String> = names.to_vec();
    all_names.push(ABSENT.to_string());
    let mut lock = Lock {
        g: Graph::new(specs.to_real()),
        cands: vec![Model::new(specs)],
        order_known: true,
        names: all_names,
        tags: BTreeSet::new(),
        arcs: std::collections::HashMap::new(),
    };
    let probe_phase = names.iter().map(|n| n.len()).sum::<usize>() + ops.len();
    for (i, op) in ops.iter().enumerate() {
        if (i + probe_phase) % 3 == 0 && i > 0 && lock.g.number_of_nodes() <= 12 {
            // read-only calls between mutations; whatever they compute must not leak into the
            // answers given after the next mutation (a panic here is C20's business)
            let _ = ctx::guard("probe", || crate::gen::warm_up(&lock.g));
        }
        if !step(&mut lock, op, mon, i) {
            break;
        }
        let quiescent = mon.every_op || i % 4 == 3 || i + 1 == ops.len();
        if quiescent {
            quiescent_checks(&mut lock, mon);
        }
    }
    lock
}

pub fn quiescent_checks(lock: &mut Lock, mon: &Monitors) {
    if lock.cands.is_empty() {
        lock.cands = vec![model_from_graph(&lock.g)];
        lock.order_known = false;
    }
    let m = lock.cands[0].clone();
    if mon.queries {
        let e = check_queries(&lock.g, &m, &lock.names, lock.order_known, mon.prop);
        ctx::eval(e);
        ctx::eval(check_snapshot_indexes(&lock.g, &m, lock.order_known, mon.prop));
    }
    if mon.traversal {
        ctx::eval(check_traversal_lists(&lock.g, &m, mon.prop));
        if !mon.queries {
            ctx::eval(check_snapshot_indexes_sel(&lock.g, &m, lock.order_known, mon.prop, true));
        }
    }
}

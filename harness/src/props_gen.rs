//! C16 (generators produce the family they name) and C17 (seeded functions are reproducible).

use crate::ctx::{self, guard, Args};
use crate::gen::*;
use crate::model::{err_name, Specs};
use crate::rng::{fnv, mix, Rng};
use graphrs::algorithms::cluster;
use graphrs::algorithms::community::louvain;
use graphrs::algorithms::components;
use graphrs::algorithms::shortest_path::dijkstra;
use graphrs::generators::{classic, random, social};
use graphrs::{ErrorKind, Graph};
use serde_json::{json, Value};
use std::collections::{BTreeMap, BTreeSet, HashSet};

const ZACHARY: &[(i32, i32)] = &[
    (0, 1), (0, 2), (0, 3), (0, 4), (0, 5), (0, 6), (0, 7), (0, 8), (0, 10), (0, 11), (0, 12), (0, 13), (0, 17), (0, 19), (0, 21), (0, 31),
    (1, 2), (1, 3), (1, 7), (1, 13), (1, 17), (1, 19), (1, 21), (1, 30), (2, 3), (2, 7), (2, 8), (2, 9), (2, 13), (2, 27), (2, 28), (2, 32),
    (3, 7), (3, 12), (3, 13), (4, 6), (4, 10), (5, 6), (5, 10), (5, 16), (6, 16), (8, 30), (8, 32), (8, 33), (9, 33), (13, 33), (14, 32),
    (14, 33), (15, 32), (15, 33), (18, 32), (18, 33), (19, 33), (20, 32), (20, 33), (22, 32), (22, 33), (23, 25), (23, 27), (23, 29),
    (23, 32), (23, 33), (24, 25), (24, 27), (24, 31), (25, 31), (26, 29), (26, 33), (27, 33), (28, 31), (28, 33), (29, 32), (29, 33),
    (30, 32), (30, 33), (31, 32), (31, 33), (32, 33),
];

/// structural check shared by the generators: node set {0..n-1}, no self-loop, no repeated pair.
/// Returns the edge set (normalised for undirected graphs).
fn structure(g: &Graph<i32, ()>, n: i32, directed: bool) -> Result<BTreeSet<(i32, i32)>, (String, Value)> {
    let nodes: BTreeSet<i32> = g.get_all_nodes().iter().map(|x| x.name).collect();
    let want: BTreeSet<i32> = (0..n).collect();
    if nodes != want || g.get_all_nodes().len() != n.max(0) as usize {
        return Err(("wrong-node-set".into(), json!({"got": nodes.len(), "want": n})));
    }
    if g.specs.directed != directed {
        return Err(("wrong-directedness".into(), json!(null)));
    }
    let mut set = BTreeSet::new();
    for e in g.get_all_edges() {
        if e.u == e.v {
            return Err(("self-loop".into(), json!([e.u, e.v])));
        }
        let key = if !directed && e.u > e.v { (e.v, e.u) } else { (e.u, e.v) };
        if !set.insert(key) {
            return Err(("repeated-pair".into(), json!([e.u, e.v])));
        }
    }
    Ok(set)
}

pub fn run_c16(a: &Args) {
    let mut idx: u64 = 0;
    // ---- complete_graph: exhaustive for n in 0..=60, spot values up to 300
    let mut ns: Vec<i32> = (0..=60).collect();
    ns.extend_from_slice(if a.thorough { &[64, 65, 100, 127, 128, 129, 200, 255, 256, 257, 300] } else { &[100, 129] });
    for n in ns {
        for directed in [false, true] {
            let this = idx;
            idx += 1;
            if !ctx::mine(this) {
                continue;
            }
            ctx::case_desc(json!({"complete_graph": [n, directed]}));
            ctx::eval(1);
            let kind = if directed { "directed" } else { "undirected" };
            match guard("complete_graph", || classic::complete_graph(n, directed)) {
                Err(c) => ctx::violation(&format!("C16|complete_graph|{}|{}", c.class(), kind), "complete_graph panicked", json!({"n": n, "caught": c.json()})),
                Ok(g) => match structure(&g, n, directed) {
                    Err((class, det)) => ctx::violation(&format!("C16|complete_graph|{}|{}", class, kind), &format!("complete_graph({}, {}): {}", n, directed, class), det),
                    Ok(set) => {
                        let want = if directed { (n as i64) * (n as i64 - 1) } else { (n as i64) * (n as i64 - 1) / 2 };
                        if set.len() as i64 != want.max(0) {
                            ctx::violation(&format!("C16|complete_graph|wrong-edge-set|{}", kind), "complete_graph does not have exactly one edge per pair", json!({"n": n, "got": set.len(), "want": want}));
                        }
                    }
                },
            }
            ctx::nontrivial(mix(n as u64, directed as u64));
            ctx::count("complete_graph:checked");
        }
    }
    // ---- karate club
    {
        let this = idx;
        idx += 1;
        if ctx::mine(this) {
            ctx::eval(1);
            match guard("karate_club_graph", || social::karate_club_graph()) {
                Err(c) => ctx::violation(&format!("C16|karate_club_graph|{}|undirected", c.class()), "karate_club_graph panicked", c.json()),
                Ok(g) => match structure(&g, 34, false) {
                    Err((class, det)) => ctx::violation(&format!("C16|karate_club_graph|{}|undirected", class), "karate_club_graph structure", det),
                    Ok(set) => {
                        let want: BTreeSet<(i32, i32)> = ZACHARY.iter().copied().collect();
                        if set != want {
                            ctx::violation("C16|karate_club_graph|not-the-zachary-edge-set|undirected", "karate_club_graph is not the 78-edge Zachary graph", json!({"got_edges": set.len(), "missing": want.difference(&set).collect::<Vec<_>>(), "extra": set.difference(&want).collect::<Vec<_>>()}));
                        }
                        ctx::count("karate:checked");
                    }
                },
            }
            ctx::nontrivial(0x3478);
        }
    }
    // ---- invalid probabilities
    for (i, p) in [0.0, 1.0, -0.1, 1.5, f64::NAN, f64::INFINITY, -0.0, 1.0000000000000002].iter().enumerate() {
        for directed in [false, true] {
            let this = idx;
            idx += 1;
            if !ctx::mine(this) {
                continue;
            }
            ctx::eval(1);
            let kind = if directed { "directed" } else { "undirected" };
          for n in [10, 0, 1, 2] {
            match guard("fast_gnp_random_graph", || random::fast_gnp_random_graph(n, *p, directed, Some(i as u64))) {
                Ok(Err(e)) if matches!(e.kind, ErrorKind::InvalidArgument) => ctx::count("gnp:invalid-p-rejected"),
                Ok(Err(e)) => ctx::violation(&format!("C16|fast_gnp_random_graph|invalid-p-wrong-error:{}|{}", err_name(&e.kind), kind), "p outside (0,1) rejected with the wrong error", json!({"p": format!("{}", p)})),
                Ok(Ok(_)) => ctx::violation(&format!("C16|fast_gnp_random_graph|invalid-p-accepted|{}", kind), "p outside (0,1) was not rejected with InvalidArgument", json!({"p": format!("{}", p)})),
                Err(c) => ctx::violation(&format!("C16|fast_gnp_random_graph|{}|{}", c.class(), kind), "fast_gnp_random_graph panicked on an invalid p", json!({"p": format!("{}", p), "caught": c.json()})),
            }
          }
        }
    }
    // ---- G(n,p): structure for every seed, mean edge count over S seeds
    let ns: &[i32] = if a.thorough { &[0, 1, 2, 3, 5, 10, 30, 100, 300] } else { &[0, 1, 2, 3, 5, 10, 30, 60] };
    let ps: &[f64] = &[1e-12, 1e-9, 1e-6, 0.01, 0.1, 0.3, 0.5, 0.9, 0.999999, 1.0 - 1e-12, 0.9999999999999999];
    let s_count: u64 = if a.thorough { 1000 } else { 60 };
    let base = 10_000;
    let mut cfg = 0u64;
    for &n in ns {
        for &p in ps {
            for directed in [false, true] {
                let this = base + cfg;
                cfg += 1;
                if !ctx::mine(this) {
                    continue;
                }
                let kind = if directed { "directed" } else { "undirected" };
                ctx::case_desc(json!({"fast_gnp_random_graph": {"n": n, "p": p, "directed": directed, "seeds": s_count}}));
                let pairs = if directed { (n as f64) * (n as f64 - 1.0) } else { (n as f64) * (n as f64 - 1.0) / 2.0 };
                let mut total_edges = 0f64;
                let mut ok = true;
                for s in 0..s_count {
                    let seed = mix(a.seed, mix(this, s));
                    ctx::eval(1);
                    match guard("fast_gnp_random_graph", || random::fast_gnp_random_graph(n, p, directed, Some(seed))) {
                        Err(c) => {
                            ctx::violation(&format!("C16|fast_gnp_random_graph|{}|{}", c.class(), kind), "fast_gnp_random_graph panicked for a valid p", json!({"n": n, "p": p, "seed": seed, "caught": c.json()}));
                            ok = false;
                            break;
                        }
                        Ok(Err(e)) => {
                            ctx::violation(&format!("C16|fast_gnp_random_graph|error:{}|{}", err_name(&e.kind), kind), "fast_gnp_random_graph failed for a valid p", json!({"n": n, "p": p, "seed": seed, "message": e.message}));
                            ok = false;
                            break;
                        }
                        Ok(Ok(g)) => match structure(&g, n, directed) {
                            Err((class, det)) => {
                                ctx::violation(&format!("C16|fast_gnp_random_graph|{}|{}", class, kind), &format!("G(n,p) structure: {}", class), json!({"n": n, "p": p, "seed": seed, "detail": det}));
                                ok = false;
                                break;
                            }
                            Ok(set) => total_edges += set.len() as f64,
                        },
                    }
                }
                if ok && n >= 2 {
                    let mean = total_edges / s_count as f64;
                    let mu = p * pairs;
                    let allowance = mu / (n as f64 - 1.0) + 6.0 * (pairs * p * (1.0 - p) / s_count as f64).sqrt();
                    // with fewer than 50 expected edges in total the count is Poisson, not normal:
                    // the verdict is then an exact tail probability below 1e-9 at the ends of the
                    // property's own relative allowance
                    let lam = mu * s_count as f64;
                    let rel = 1.0 / (n as f64 - 1.0);
                    let outside = if lam * (1.0 + rel) < 50.0 {
                        ctx::count("gnp:mean-tested-with-exact-poisson-tail");
                        poisson_upper_tail(total_edges as u64, lam * (1.0 + rel)) < 1e-9 || poisson_lower_tail(total_edges as u64, lam * (1.0 - rel).max(0.0)) < 1e-9
                    } else {
                        (mean - mu).abs() > allowance
                    };
                    if lam * (1.0 + rel) >= 50.0 {
                        ctx::maxf("max_mean_deviation_over_allowance", if allowance > 0.0 { (mean - mu).abs() / allowance } else { 0.0 });
                    }
                    if outside {
                        ctx::violation(
                            &format!("C16|fast_gnp_random_graph|mean-edge-count|{}", kind),
                            "mean number of edges over the seeds is not p x (number of possible pairs)",
                            json!({"n": n, "p": p, "seeds": s_count, "mean": mean, "expected": mu, "allowance": allowance}),
                        );
                    }
                    ctx::count("gnp:mean-tested-configurations");
                }
                ctx::nontrivial(mix(this, 0x6e70));
                ctx::sample_tagged(kind, || json!({"n": n, "p": p, "directed": directed, "seeds": s_count, "mean_edges": total_edges / s_count as f64, "expected": p * pairs}));
            }
        }
    }
    // ---- every possible pair can occur (small n, p = 0.5, many seeds)
    let base2 = 20_000;
    let mut cfg2 = 0u64;
    for n in 2..=6i32 {
        for directed in [false, true] {
            let this = base2 + cfg2;
            cfg2 += 1;
            if !ctx::mine(this) {
                continue;
            }
            let kind = if directed { "directed" } else { "undirected" };
            let mut seen: BTreeSet<(i32, i32)> = BTreeSet::new();
            let seeds = 400u64;
            for s in 0..seeds {
                ctx::eval(1);
                if let Ok(Ok(g)) = guard("fast_gnp_random_graph", || random::fast_gnp_random_graph(n, 0.5, directed, Some(mix(a.seed ^ 0x9a17, mix(this, s))))) {
                    if let Ok(set) = structure(&g, n, directed) {
                        seen.extend(set);
                    }
                }
            }
            let mut missing = vec![];
            for u in 0..n {
                for v in 0..n {
                    if u != v && (directed || u < v) && !seen.contains(&(u, v)) {
                        missing.push((u, v));
                    }
                }
            }
            if !missing.is_empty() {
                ctx::violation(&format!("C16|fast_gnp_random_graph|pair-never-occurs|{}", kind), "a possible pair never occurred in 400 seeded draws at p = 0.5", json!({"n": n, "missing": missing}));
            }
            ctx::count("gnp:pair-occurrence-configurations");
            ctx::nontrivial(mix(this, 0x9a17));
        }
    }
    // ---- the unseeded generator (seed = None) must still draw fresh G(n,p) samples
    for directed in [false, true] {
        let this = 25_000 + directed as u64;
        if !ctx::mine(this) {
            continue;
        }
        let kind = if directed { "directed" } else { "undirected" };
        let n = 5;
        let mut seen: BTreeSet<(i32, i32)> = BTreeSet::new();
        let mut distinct: BTreeSet<Vec<(i32, i32)>> = BTreeSet::new();
        for _ in 0..400 {
            ctx::eval(1);
            match guard("fast_gnp_random_graph", || random::fast_gnp_random_graph(n, 0.5, directed, None)) {
                Ok(Ok(g)) => match structure(&g, n, directed) {
                    Ok(set) => {
                        distinct.insert(set.iter().copied().collect());
                        seen.extend(set);
                    }
                    Err((class, det)) => ctx::violation(&format!("C16|fast_gnp_random_graph|{}|{}", class, kind), "unseeded G(n,p) structure", det),
                },
                Ok(Err(e)) => ctx::violation(&format!("C16|fast_gnp_random_graph|error:{}|{}", err_name(&e.kind), kind), "unseeded fast_gnp_random_graph failed", json!(e.message)),
                Err(c) => ctx::violation(&format!("C16|fast_gnp_random_graph|{}|{}", c.class(), kind), "unseeded fast_gnp_random_graph panicked", c.json()),
            }
        }
        let possible = if directed { 20 } else { 10 };
        if seen.len() != possible || distinct.len() < 20 {
            // 400 independent draws at p = 0.5 miss a pair with probability 2^-400 and repeat
            // 380 times among 2^10 / 2^20 graphs with probability far below 1e-100
            ctx::violation(&format!("C16|fast_gnp_random_graph|unseeded-draws-not-independent|{}", kind), "400 unseeded draws did not behave like independent G(n,p) samples", json!({"pairs_seen": seen.len(), "possible_pairs": possible, "distinct_graphs": distinct.len()}));
        }
        // the first unseeded call of each of 24 fresh threads: independent draws as well
        let firsts: Vec<Vec<(i32, i32)>> = std::thread::scope(|s| {
            let hs: Vec<_> = (0..24).map(|_| s.spawn(move || random::fast_gnp_random_graph(6, 0.5, directed, None).ok().map(|g| structure(&g, 6, directed).map(|set| set.into_iter().collect::<Vec<_>>()).unwrap_or_default()).unwrap_or_default())).collect();
            hs.into_iter().map(|h| h.join().unwrap_or_default()).collect()
        });
        ctx::eval(24);
        let distinct_firsts: BTreeSet<Vec<(i32, i32)>> = firsts.into_iter().collect();
        if distinct_firsts.len() < 12 {
            // 24 independent draws among 2^15 / 2^30 graphs: fewer than 12 distinct has probability below 1e-30
            ctx::violation(&format!("C16|fast_gnp_random_graph|unseeded-draws-not-independent-across-threads|{}", kind), "the first unseeded draws of 24 fresh threads were not independent G(n,p) samples", json!({"distinct_graphs": distinct_firsts.len(), "threads": 24}));
        }
        // an unseeded call that follows a seeded one (same seed every time) is still a fresh draw
        let mut after_seeded: BTreeSet<Vec<(i32, i32)>> = BTreeSet::new();
        for _ in 0..24 {
            let _ = random::fast_gnp_random_graph(6, 0.5, directed, Some(12345));
            if let Ok(g) = random::fast_gnp_random_graph(6, 0.5, directed, None) {
                if let Ok(set) = structure(&g, 6, directed) {
                    after_seeded.insert(set.into_iter().collect());
                }
            }
        }
        ctx::eval(24);
        if after_seeded.len() < 12 {
            ctx::violation(&format!("C16|fast_gnp_random_graph|unseeded-draw-after-seeded-call-not-fresh|{}", kind), "unseeded draws made right after a seeded call (same seed each time) repeat", json!({"distinct_graphs": after_seeded.len(), "rounds": 24}));
        }
        ctx::count("gnp:unseeded-draws-checked");
        ctx::nontrivial(mix(this, 0x4e0));
    }
    // ---- the sparse regime of small graphs: p from 1/(8 n^2) to 1/n, where single skips jump
    // over many rows and regularly end on the last slots of the pair enumeration
    let base4 = 40_000;
    let sparse_seeds: u64 = if a.thorough { 60_000 } else { 4_000 };
    let mut cfg4 = 0u64;
    for n in 4..=16i32 {
        for directed in [false, true] {
            let this = base4 + cfg4;
            cfg4 += 1;
            if !ctx::mine(this) {
                continue;
            }
            let kind = if directed { "directed" } else { "undirected" };
            let nf = n as f64;
            ctx::case_desc(json!({"fast_gnp_random_graph": {"n": n, "directed": directed, "p": "1/(8n^2) .. 1/n", "seeds_per_p": sparse_seeds}}));
            'cfg: for p in [1.0 / (8.0 * nf * nf), 1.0 / (2.0 * nf * nf), 1.0 / (nf * nf), 1.0 / (4.0 * nf), 1.0 / nf] {
                for s in 0..sparse_seeds {
                    let seed = mix(a.seed ^ 0x5ba5, mix(this, s)) ^ p.to_bits();
                    ctx::eval(1);
                    match guard("fast_gnp_random_graph", || random::fast_gnp_random_graph(n, p, directed, Some(seed))) {
                        Err(c) => {
                            ctx::violation(&format!("C16|fast_gnp_random_graph|{}|{}", c.class(), kind), "fast_gnp_random_graph panicked for a valid p", json!({"n": n, "p": p, "seed": seed, "caught": c.json()}));
                            break 'cfg;
                        }
                        Ok(Err(e)) => {
                            ctx::violation(&format!("C16|fast_gnp_random_graph|error:{}|{}", err_name(&e.kind), kind), "fast_gnp_random_graph failed for a valid p", json!({"n": n, "p": p, "seed": seed, "message": e.message}));
                            break 'cfg;
                        }
                        Ok(Ok(g)) => {
                            if let Err((class, det)) = structure(&g, n, directed) {
                                ctx::violation(&format!("C16|fast_gnp_random_graph|{}|{}", class, kind), "G(n,p) structure in the sparse regime", json!({"n": n, "p": p, "seed": seed, "detail": det}));
                                break 'cfg;
                            }
                        }
                    }
                }
            }
            ctx::count("gnp:sparse-regime-configurations");
            ctx::nontrivial(mix(this, 0x5ba5));
        }
    }
    // ---- seeds whose first random words are extreme. Found once by scanning all seeds below
    // 2^32 (ChaCha20Rng::seed_from_u64(seed), first two next_u32 words): the only ones with an
    // all-zero or all-one word among the first two.
    const EXTREME_SEEDS: [(u64, &str); 5] = [
        (621649759, "second word 00000000"),
        (1197075488, "second word 00000000"),
        (1743399941, "first word ffffffff"),
        (1804668985, "first word 00000000"),
        (4036442990, "second word 00000000"),
    ];
    if ctx::mine(45_000) {
        ctx::case_desc(json!({"fast_gnp_random_graph": "seeds with extreme first random words", "seeds": EXTREME_SEEDS.iter().map(|s| s.0).collect::<Vec<_>>()}));
        for (seed, _) in EXTREME_SEEDS {
            for n in [2i32, 3, 5, 10, 30, 300] {
                for p in [1e-12, 1e-10, 2e-10, 1e-9, 1e-6, 0.01, 0.5, 0.999999] {
                    for directed in [false, true] {
                        let kind = if directed { "directed" } else { "undirected" };
                        ctx::eval(1);
                        match guard("fast_gnp_random_graph", || random::fast_gnp_random_graph(n, p, directed, Some(seed))) {
                            Err(c) => ctx::violation(&format!("C16|fast_gnp_random_graph|{}|{}", c.class(), kind), "fast_gnp_random_graph panicked for a valid p", json!({"n": n, "p": p, "seed": seed, "caught": c.json()})),
                            Ok(Err(e)) => ctx::violation(&format!("C16|fast_gnp_random_graph|error:{}|{}", err_name(&e.kind), kind), "fast_gnp_random_graph failed for a valid p", json!({"n": n, "p": p, "seed": seed, "message": e.message})),
                            Ok(Ok(g)) => {
                                if let Err((class, det)) = structure(&g, n, directed) {
                                    ctx::violation(&format!("C16|fast_gnp_random_graph|{}|{}", class, kind), "G(n,p) structure for a seed with an extreme first random word", json!({"n": n, "p": p, "seed": seed, "detail": det}));
                                }
                            }
                        }
                    }
                }
            }
        }
        ctx::count("gnp:extreme-first-word-seeds");
        ctx::nontrivial(0xE57);
    }
    // ---- probabilities so small that 1 - p rounds to 1 (p <= 2^-54), down to the smallest
    // subnormal: still inside (0,1), so the call must succeed (with an edgeless graph, in practice)
    let base5 = 50_000;
    let mut cfg5 = 0u64;
    for p in [1.2e-16, 1.1102230246251565e-16, 5.6e-17, 5.5e-17, 1e-17, 1e-30, 1e-100, 1e-300, f64::MIN_POSITIVE, 5e-324] {
        for directed in [false, true] {
            let this = base5 + cfg5;
            cfg5 += 1;
            if !ctx::mine(this) {
                continue;
            }
            let kind = if directed { "directed" } else { "undirected" };
            ctx::case_desc(json!({"fast_gnp_random_graph": {"p": format!("{:e}", p), "directed": directed, "n": [0, 1, 2, 10, 300], "seeds": 20}}));
            'tiny: for n in [0i32, 1, 2, 10, 300] {
                for s in 0..20u64 {
                    let seed = mix(a.seed ^ 0x7191, mix(this, s));
                    ctx::eval(1);
                    // a call that never returns here also allocates without bound: keep the
                    // step small so that the CPU watchdog or the address-space limit ends it
                    match guard("fast_gnp_random_graph", || random::fast_gnp_random_graph(n, p, directed, Some(seed))) {
                        Err(c) => {
                            ctx::violation(&format!("C16|fast_gnp_random_graph|{}|{}", c.class(), kind), "fast_gnp_random_graph panicked for a valid p", json!({"n": n, "p": format!("{:e}", p), "seed": seed, "caught": c.json()}));
                            break 'tiny;
                        }
                        Ok(Err(e)) => {
                            ctx::violation(&format!("C16|fast_gnp_random_graph|error:{}|{}", err_name(&e.kind), kind), "fast_gnp_random_graph failed for a valid p", json!({"n": n, "p": format!("{:e}", p), "seed": seed, "message": e.message}));
                            break 'tiny;
                        }
                        Ok(Ok(g)) => {
                            if let Err((class, det)) = structure(&g, n, directed) {
                                ctx::violation(&format!("C16|fast_gnp_random_graph|{}|{}", class, kind), "G(n,p) structure at a probability below 2^-53", json!({"n": n, "p": format!("{:e}", p), "seed": seed, "detail": det}));
                                break 'tiny;
                            }
                        }
                    }
                }
            }
            ctx::count("gnp:probabilities-below-2^-53");
            ctx::nontrivial(mix(this, 0x7191));
        }
    }
    // ---- tiny probabilities over many seeds (arithmetic on huge skips)
    let base3 = 30_000;
    let tiny_seeds: u64 = if a.thorough { 100_000 } else { 20_000 };
    let mut cfg3 = 0u64;
    for &n in &[3i32, 30, 300] {
        for &p in &[1e-9, 3e-10, 1e-10] {
            for directed in [false, true] {
                let this = base3 + cfg3;
                cfg3 += 1;
                if !ctx::mine(this) {
                    continue;
                }
                let kind = if directed { "directed" } else { "undirected" };
                for s in 0..tiny_seeds {
                    let seed = mix(a.seed ^ 0x717, mix(this, s));
                    ctx::eval(1);
                    match guard("fast_gnp_random_graph", || random::fast_gnp_random_graph(n, p, directed, Some(seed))) {
                        Err(c) => {
                            ctx::violation(&format!("C16|fast_gnp_random_graph|{}|{}", c.class(), kind), "fast_gnp_random_graph panicked for a tiny valid p", json!({"n": n, "p": p, "seed": seed, "caught": c.json()}));
                            break;
                        }
                        Ok(Err(e)) => {
                            ctx::violation(&format!("C16|fast_gnp_random_graph|error:{}|{}", err_name(&e.kind), kind), "fast_gnp_random_graph failed for a tiny valid p", json!({"n": n, "p": p, "seed": seed, "message": e.message}));
                            break;
                        }
                        Ok(Ok(g)) => {
                            if let Err((class, det)) = structure(&g, n, directed) {
                                ctx::violation(&format!("C16|fast_gnp_random_graph|{}|{}", class, kind), "G(n,p) structure at tiny p", json!({"n": n, "p": p, "seed": seed, "detail": det}));
                                break;
                            }
                        }
                    }
                }
                ctx::count("gnp:tiny-p-configurations");
                ctx::nontrivial(mix(this, 0x717));
            }
        }
    }
}

/// P(X >= k) for X ~ Poisson(lam), lam < ~700
fn poisson_upper_tail(k: u64, lam: f64) -> f64 {
    if k == 0 {
        return 1.0;
    }
    1.0 - poisson_cdf(k - 1, lam)
}

/// P(X <= k) for X ~ Poisson(lam)
fn poisson_lower_tail(k: u64, lam: f64) -> f64 {
    poisson_cdf(k, lam)
}

fn poisson_cdf(k: u64, lam: f64) -> f64 {
    if lam <= 0.0 {
        return 1.0;
    }
    let mut term = (-lam).exp();
    let mut sum = term;
    for i in 1..=k.min(100_000) {
        term *= lam / i as f64;
        sum += term;
        if term < 1e-300 && i as f64 > lam {
            break;
        }
    }
    sum.min(1.0)
}

// ============================================================================ C17

fn canon_levels(levels: &[Vec<HashSet<String>>]) -> String {
    let v: Vec<BTreeSet<BTreeSet<String>>> = levels.iter().map(|l| l.iter().map(|c| c.iter().cloned().collect()).collect()).collect();
    format!("{:?}", v)
}

pub fn tie_rich_case(rng: &mut Rng, idx: u64) -> GCase {
    let kinds = kinds8();
    let fams: &[&'static str] = &["path", "cycle", "complete", "bipartite", "grid", "ladder", "star", "barbell"];
    let specs = *rng.pick(&kinds);
    let wclass = *rng.pick(&[WClass::Unweighted, WClass::Unweighted, WClass::Exact, WClass::Generic]);
    if idx % 3 == 2 {
        random_case(rng, 2, 40, &kinds, &[WClass::Unweighted, WClass::Exact, WClass::ExactWide, WClass::Generic, WClass::UlpsDecimal])
    } else {
        let n = *rng.pick(&[4usize, 6, 8, 9, 12, 16, 20, 24, 32, 40, 48, 64]);
        gen_case(specs, *rng.pick(fams), n, wclass, &GenOpts { self_loops: false, parallel: rng.chance(1, 4), shuffle_edges: true }, rng)
    }
}

/// One reproducibility case: returns (function name, canonical discrete result) pairs.
fn c17_results(case_kind: u64, rng: &mut Rng, idx: u64) -> Vec<(&'static str, String, Value)> {
    let mut out = vec![];
    match case_kind {
        0 => {
            // seeded generator
            let n = *rng.pick(&[0i32, 1, 2, 5, 10, 30, 100, 300, 600]);
            let p = *rng.pick(&[1e-6, 0.01, 0.1, 0.3, 0.5, 0.9]);
            let directed = rng.coin();
            let seed = rng.next_u64() % 1000;
            let desc = json!({"fast_gnp_random_graph": {"n": n, "p": p, "directed": directed, "seed": seed}});
            let r = guard("fast_gnp_random_graph", || random::fast_gnp_random_graph(n, p, directed, Some(seed)));
            let canon = match r {
                Ok(Ok(g)) => {
                    let nodes: Vec<i32> = g.get_all_nodes().iter().map(|x| x.name).collect();
                    let mut edges: Vec<(i32, i32)> = g.get_all_edges().iter().map(|e| if !directed && e.u > e.v { (e.v, e.u) } else { (e.u, e.v) }).collect();
                    edges.sort();
                    format!("{:?}|{:?}", nodes, edges)
                }
                Ok(Err(e)) => format!("error:{}", err_name(&e.kind)),
                Err(c) => format!("panic:{}", c.class()),
            };
            out.push(("fast_gnp_random_graph", canon, desc));
        }
        1 | 2 | 3 | 6 | 7 => {
            // seeded Louvain on tie-rich graphs; the graph is rebuilt, so every hash table is re-keyed
            let case = if case_kind >= 6 {
                // small graphs with arbitrary real weights: gains that are zero up to rounding make
                // the result depend on the order in which floating-point sums are taken
                let kinds = kinds8();
                let fam: &'static str = *rng.pick(&["gnp_mid", "gnp_dense", "complete", "cycle", "gnp_sparse"]);
                gen_case(*rng.pick(&kinds), fam, rng.range(3, 8), WClass::Generic, &GenOpts { self_loops: rng.coin(), parallel: rng.coin(), shuffle_edges: true }, rng)
            } else {
                tie_rich_case(rng, idx)
            };
            // two larger shapes: a dense regular graph with at least 4096 equal inexact weights (any
            // size-triggered parallel reduction changes the association of the sums), and a chain
            // with weights 1, 2, 3, ... plus light chords, whose first level needs more sweeps
            // than it has nodes
            let big = if idx % 97 == 1 { 1 } else if idx % 97 == 2 { 2 } else { 0 };
            let case = match big {
                1 => {
                    let n = *rng.pick(&[256usize, 300]);
                    let names: Vec<String> = (0..n).map(|i| format!("r{:03}", i)).collect();
                    let w = *rng.pick(&[0.1, 0.3, 0.7]);
                    let mut edges = vec![];
                    for i in 0..n {
                        for k in 1..=16 {
                            edges.push((i, (i + k) % n, w));
                        }
                    }
                    ctx::count("reach:louvain-on-dense-regular-graph-with-4096-or-more-edges");
                    GCase { specs: Specs::kind(false, false, false), names, edges, family: "circulant(1..16)", wclass: WClass::Generic }
                }
                2 => {
                    let n = rng.range(300, 600);
                    let names: Vec<String> = (0..n).map(|i| format!("v{:04}", i)).collect();
                    let mut edges: Vec<(usize, usize, f64)> = (0..n - 1).map(|i| (i, i + 1, 1.0 + i as f64)).collect();
                    let mut seen: std::collections::HashSet<(usize, usize)> = std::collections::HashSet::new();
                    let fraction = *rng.pick(&[0.01, 0.01, 0.03]);
                    for _ in 0..(if rng.coin() { n } else { n / 3 }) {
                        let (x, y) = (rng.below(n), rng.below(n));
                        let (p, q) = (x.min(y), x.max(y));
                        if q - p >= 2 && seen.insert((p, q)) {
                            edges.push((p, q, ((1.0 + p as f64) * fraction).floor().max(1.0)));
                        }
                    }
                    ctx::count("reach:louvain-on-slowly-settling-chain");
                    GCase { specs: Specs::kind(false, false, false), names, edges, family: "chain-with-increasing-weights-and-chords", wclass: WClass::Exact }
                }
                _ => case,
            };
            if case.edges.is_empty() {
                return out;
            }
            let mut weighted = (case.wclass.weighted() && (case_kind >= 6 || rng.coin())) || big > 0;
            let triple = big == 0 && case_kind < 6 && case.edges.len() >= 7 && rng.chance(1, 4);
            let gamma = *rng.pick(&[0.5, 1.0, 1.0, 1.5]);
            let threshold = *rng.pick(&[None, None, Some(0.0), Some(0.01)]);
            let seed = match rng.below(8) {
                0 => u64::MAX - rng.below(3) as u64,
                1 => 1u64 << 63,
                _ => rng.next_u64() % 21,
            };
            let mut case = case;
            if weighted && big == 0 && rng.coin() {
                // symmetric weight patterns keep exact ties alive on weighted graphs
                let pat: &[f64] = *rng.pick(&[&[3.0, 3.0, 1.0][..], &[5.0, 3.0, 7.0][..], &[3.0, 2.0, 1.0][..], &[2.0][..], &[1.5, 0.5][..]]);
                for e in case.edges.iter_mut() {
                    e.2 = pat[(e.0 + e.1) % pat.len()];
                }
            }
            if weighted && big == 0 && rng.chance(1, 4) {
                // exact (power-of-two scaled) weights whose squares overflow f64
                for e in case.edges.iter_mut() {
                    e.2 *= 2f64.powi(520);
                }
                ctx::count("reach:louvain-with-huge-dyadic-weights");
            }
            if triple {
                // a symmetric multigraph: every edge becomes three parallel edges weighing 0.1, 0.2
                // and 0.3 in rotating order - their sum is 0.6 or 0.6000000000000001 depending on
                // the order of addition, which insertion order fixes, and the many exact ties
                // between candidate communities turn any change of a last bit into another partition
                const PERMS: [[f64; 3]; 4] = [[0.1, 0.2, 0.3], [0.3, 0.2, 0.1], [0.2, 0.3, 0.1], [0.3, 0.1, 0.2]];
                let mut e3 = vec![];
                for (i, (u, v, _)) in case.edges.iter().enumerate() {
                    for w in PERMS[i % 4] {
                        e3.push((*u, *v, w));
                    }
                }
                case.edges = e3;
                case.specs.multi = true;
                case.wclass = WClass::Generic;
                weighted = true;
                ctx::count("reach:louvain-on-multigraph-with-three-inexact-parallel-edges-per-pair");
            }
            let desc = json!({"graph": case.json(), "weighted": weighted, "resolution": gamma, "threshold": threshold, "seed": seed.to_string()});
            ctx::case_desc(desc.clone()); // announced before the calls: a call that never returns is then attributable
            let g = case.build();
            crate::ctx::set_budget("louvain_sweep", Some(200 + 20 * case.n() as u64));
            graphrs::verif_hooks::take_ticks("louvain_sweep");
            let r = guard("louvain_partitions", || louvain::louvain_partitions(&g, weighted, Some(gamma), threshold, Some(seed)));
            let canon = match r {
                Ok(Ok(l)) => canon_levels(&l),
                Ok(Err(e)) => format!("error:{}", err_name(&e.kind)),
                Err(c) => format!("panic:{}", c.class()),
            };
            out.push(("louvain_partitions", canon, desc.clone()));
            let r2 = guard("louvain_communities", || louvain::louvain_communities(&g, weighted, Some(gamma), threshold, Some(seed)));
            let canon2 = match r2 {
                Ok(Ok(l)) => canon_levels(&[l]),
                Ok(Err(e)) => format!("error:{}", err_name(&e.kind)),
                Err(c) => format!("panic:{}", c.class()),
            };
            out.push(("louvain_communities", canon2, desc.clone()));
            // the same graph reached through other public construction paths: the seeded result
            // on each of them must be reproducible too (every repetition rebuilds them)
            let mut variants: Vec<(&'static str, GS)> = vec![];
            {
                // one batch of tuples with a repeated tuple, nodes created on the fly
                let mut t: GS = graphrs::Graph::new(case.effective_specs().to_real());
                let mut tuples: Vec<(String, String)> = case.edges.iter().map(|(u, v, _)| (case.names[*u].clone(), case.names[*v].clone())).collect();
                if let Some(first) = tuples.first().cloned() {
                    tuples.push(first);
                }
                if t.add_edge_tuples(tuples).is_ok() {
                    variants.push(("louvain_communities(graph from add_edge_tuples)", t));
                }
            }
            {
                // a selection that is a small part (under a fifth) of a larger graph
                let mut h = case.build();
                for i in 0..(4 * case.n() + 3) {
                    h.add_node(graphrs::Node::from_name(format!("~pad{}", i)));
                }
                let mut sel: Vec<String> = case.names.clone();
                sel.reverse();
                variants.push(("louvain_communities(graph from get_subgraph)", h.get_subgraph(&sel)));
            }
            variants.push(("louvain_communities(graph from set_all_edge_weights)", g.set_all_edge_weights(2.0)));
            if let Ok(r) = g.reverse() {
                variants.push(("louvain_communities(graph from reverse)", r));
            }
            if let Ok(s1) = g.to_single_edges() {
                variants.push(("louvain_communities(graph from to_single_edges)", s1));
            }
            for (tag, vg) in variants {
                graphrs::verif_hooks::take_ticks("louvain_sweep");
                let w = weighted && vg.edges_have_weight();
                let r3 = guard("louvain_communities", || louvain::louvain_communities(&vg, w, Some(gamma), threshold, Some(seed)));
                let canon3 = match r3 {
                    Ok(Ok(l)) => canon_levels(&[l]),
                    Ok(Err(e)) => format!("error:{}", err_name(&e.kind)),
                    Err(c) => format!("panic:{}", c.class()),
                };
                out.push((tag, canon3, desc.clone()));
            }
            crate::ctx::set_budget("louvain_sweep", None);
            ctx::count("reach:louvain-on-tie-rich-graph");
        }
        _ => {
            // non-randomised algorithms, discrete outputs
            let case = tie_rich_case(rng, idx);
            let g = case.build();
            let desc = case.json();
            let weighted = case.wclass.weighted();
            let mut add = |f: &'static str, s: String| out.push((f, s, desc.clone()));
            if let Ok(Ok(ap)) = guard("dijkstra::all_pairs", || dijkstra::all_pairs(&g, weighted, None, None, false, case.n() <= 12)) {
                let mut m: BTreeMap<(String, String), (u64, Vec<Vec<String>>)> = BTreeMap::new();
                for (s, inner) in ap {
                    for (t, info) in inner {
                        let mut p = info.paths.clone();
                        p.sort();
                        m.insert((s.clone(), t), (info.distance.to_bits(), p));
                    }
                }
                add("dijkstra::all_pairs", format!("{:?}", m));
            }
            if case.n() > 0 {
                // every source towards one target, distances only and with paths
                let t0 = g.get_all_nodes()[case.n() / 3].name.clone();
                let all: Vec<String> = g.get_all_nodes().iter().map(|x| x.name.clone()).collect();
                for with_paths in [false, true] {
                    if let Ok(Ok(ms)) = guard("dijkstra::multi_source", || dijkstra::multi_source(&g, weighted, all.clone(), Some(t0.clone()), None, false, with_paths)) {
                        let mut m: BTreeMap<(String, String), (u64, Vec<Vec<String>>)> = BTreeMap::new();
                        for (s, inner) in ms {
                            for (tt, info) in inner {
                                let mut p = info.paths.clone();
                                p.sort();
                                m.insert((s.clone(), tt), (info.distance.to_bits(), p));
                            }
                        }
                        add(if with_paths { "dijkstra::multi_source(target)" } else { "dijkstra::multi_source(target,distances)" }, format!("{:?}", m));
                    }
                }
            }
            if case.n() > 0 {
                let t = g.get_all_nodes()[case.n() / 2].name.clone();
                if let Ok(Ok(ap)) = guard("dijkstra::all_pairs", || dijkstra::all_pairs(&g, weighted, Some(t.clone()), None, false, true)) {
                    let mut m: BTreeMap<(String, String), (u64, Vec<Vec<String>>)> = BTreeMap::new();
                    for (s, inner) in ap {
                        for (tt, info) in inner {
                            let mut p = info.paths.clone();
                            p.sort();
                            m.insert((s.clone(), tt), (info.distance.to_bits(), p));
                        }
                    }
                    add("dijkstra::all_pairs(target)", format!("{:?}", m));
                }
            }
            if g.specs.directed {
                if let Ok(Ok(c)) = guard("strongly_connected_components", || components::strongly_connected_components(&g)) {
                    add("strongly_connected_components", canon_levels(&[c]));
                }
                if let Ok(Ok(c)) = guard("weakly_connected_components", || components::weakly_connected_components(&g)) {
                    add("weakly_connected_components", canon_levels(&[c]));
                }
            } else {
                if let Ok(Ok(c)) = guard("connected_components", || components::connected_components(&g)) {
                    add("connected_components", canon_levels(&[c]));
                }
                if !g.specs.multi_edges {
                    if let Ok(Ok(t)) = guard("triangles", || cluster::triangles(&g, None)) {
                        add("triangles", format!("{:?}", t.into_iter().collect::<BTreeMap<_, _>>()));
                    }
                    if let Ok(Ok(t)) = guard("generalized_degree", || cluster::generalized_degree(&g, None)) {
                        add("generalized_degree", format!("{:?}", t.into_iter().map(|(k, v)| (k, v.into_iter().collect::<BTreeMap<_, _>>())).collect::<BTreeMap<_, _>>()));
                    }
                }
            }
            add("bfs_equal_size_partitions", format!("{:?}", guard("bfs_equal_size_partitions", || components::bfs_equal_size_partitions(&g, 3)).ok()));
            // coefficients, to six significant digits (the statement allows rounding of sums,
            // not different values)
            let digits = |m: std::collections::HashMap<String, f64>| format!("{:?}", m.into_iter().map(|(k, v)| (k, format!("{:.5e}", v))).collect::<BTreeMap<_, _>>());
            if !g.specs.multi_edges {
                if let Ok(m) = guard("square_clustering", || cluster::square_clustering(&g, None)) {
                    add("square_clustering", digits(m));
                }
                if let Ok(Ok(m)) = guard("clustering", || cluster::clustering(&g, weighted && g.edges_have_weight(), None)) {
                    add("clustering", digits(m));
                }
            }
            if let Ok(Ok(m)) = guard("closeness_centrality", || graphrs::algorithms::centrality::closeness::closeness_centrality(&g, weighted && g.edges_have_weight(), true)) {
                add("closeness_centrality", digits(m));
            }
            if let Ok(Ok(m)) = guard("betweenness_centrality", || graphrs::algorithms::centrality::betweenness::betweenness_centrality(&g, weighted && g.edges_have_weight(), true)) {
                add("betweenness_centrality", digits(m));
            }
        }
    }
    out
}

pub fn run_c17(a: &Args) {
    let digest_mode = a.extra.iter().any(|e| e == "digest");
    let total: u64 = if a.thorough { 24_000 } else { 1_600 };
    let reps = if digest_mode { 1 } else if a.thorough { 30 } else { 10 };
    let mut digests: BTreeMap<String, Value> = BTreeMap::new();
    // repeated calls also run under caller-installed pools of different sizes
    let pools: Vec<rayon::ThreadPool> = [1usize, 2, 3, 16].iter().map(|k| rayon::ThreadPoolBuilder::new().num_threads(*k).build().expect("pool")).collect();
    for idx in 0..total {
        if !ctx::mine(idx) {
            continue;
        }
        let case_kind = idx % 8;
        let mut first: Option<Vec<(&'static str, String, Value)>> = None;
        let mut distinct: BTreeMap<&'static str, BTreeSet<u64>> = BTreeMap::new();
        for rep in 0..reps {
            // every repetition regenerates the same inputs from the same seed
            let mut rng = Rng::new(mix(a.seed ^ 0xC17, idx));
            let res = if digest_mode || rep == 0 {
                c17_results(case_kind, &mut rng, idx)
            } else {
                ctx::count(&format!("reach:call-under-pool-of-{}-threads", [1usize, 2, 3, 16][rep % 4]));
                pools[rep % 4].install(|| c17_results(case_kind, &mut rng, idx))
            };
            ctx::eval(res.len() as u64);
            if rep == 0 {
                if let Some((_, _, d)) = res.first() {
                    ctx::case_desc(d.clone());
                }
                for (f, s, _) in &res {
                    digests.insert(format!("{}:{}", idx, f), json!(format!("{:016x}", fnv(s.as_bytes()))));
                }
            }
            for (f, s, _) in &res {
                distinct.entry(f).or_default().insert(fnv(s.as_bytes()));
            }
            match &first {
                None => first = Some(res),
                Some(f0) => {
                    for ((f, s, d), (_, s0, _)) in res.iter().zip(f0.iter()) {
                        if s != s0 {
                            let kind = d.get("graph").and_then(|g| g.get("kind")).and_then(|k| k.as_str()).map(|k| if k.starts_with('D') { "directed" } else { "undirected" }).unwrap_or("any");
                            ctx::violation(
                                &format!("C17|{}|differs-between-calls|{}", f, kind),
                                "the same arguments (and seed) gave different results on repeated calls in one process",
                                json!({"input": d, "repetition": rep, "first_result": s0.chars().take(600).collect::<String>(), "this_result": s.chars().take(600).collect::<String>()}),
                            );
                        }
                    }
                }
            }
        }
        if let Some(f0) = &first {
            if !f0.is_empty() {
                ctx::nontrivial(mix(idx, 0xC17));
                ctx::sample_tagged(f0[0].0, || f0[0].2.clone());
            }
        }
        for (f, set) in distinct {
            ctx::maxf(&format!("max_distinct_results_per_case:{}", f), set.len() as f64);
        }
        ctx::count(&format!("cases:kind{}", case_kind));
    }
    // a large sweep of tiny graphs with arbitrary real weights, three calls each: inputs on which
    // a gain is zero up to rounding are rare (about one in 10^4..10^5) but then the result
    // depends on the order of floating-point sums in about half of the calls
    if !digest_mode {
        let sweep: u64 = if a.thorough { 1_500_000 } else { 150_000 };
        let kinds = kinds8();
        for r in 0..sweep {
            let idx = 10_000_000 + r;
            if !ctx::mine(idx) {
                continue;
            }
            let mut rng = Rng::new(mix(a.seed ^ 0x5717, idx));
            let fam: &'static str = *rng.pick(&["gnp_mid", "gnp_dense", "complete", "gnp_sparse", "cycle"]);
            let mut case = gen_case(*rng.pick(&kinds), fam, rng.range(3, 7), WClass::Generic, &GenOpts { self_loops: rng.chance(1, 4), parallel: rng.chance(1, 4), shuffle_edges: true }, &mut rng);
            let zero_gain_shape = r % 4 == 3;
            if zero_gain_shape {
                // a directed core (a weighted cycle) that every edge of the graph ends in, plus
                // one to three source-only nodes: merging a source into the core changes the
                // modularity by w/m - w*m/m^2, i.e. by exactly zero in real arithmetic, so the
                // decision to compute one more level rests on rounding alone
                let core = rng.range(2, 3);
                let sources = rng.range(1, 3);
                let n = core + sources + rng.below(2);
                let names: Vec<String> = scrambled_names(n, &mut rng);
                let mut edges = vec![];
                for i in 0..core {
                    edges.push((i, (i + 1) % core, WClass::Generic.draw(&mut rng)));
                }
                for s in 0..sources {
                    edges.push((core + s, rng.below(core), WClass::Generic.draw(&mut rng)));
                }
                rng.shuffle(&mut edges);
                case = GCase { specs: Specs::kind(true, rng.chance(1, 3), false), names, edges, family: "directed-core-with-source-only-nodes", wclass: WClass::Generic };
                ctx::count("reach:merge-with-exactly-zero-gain");
            }
            if case.edges.is_empty() {
                continue;
            }
            let gamma = if zero_gain_shape { 1.0 } else { *rng.pick(&[1.0, 1.0, 0.5, 1.5]) };
            let threshold = if zero_gain_shape { Some(0.0) } else { *rng.pick(&[None, Some(0.0), Some(0.01)]) };
            let seed = rng.next_u64() % 1000;
            let mut first: Option<String> = None;
            for rep in 0..4 {
                let g = case.build();
                crate::ctx::set_budget("louvain_sweep", Some(400));
                graphrs::verif_hooks::take_ticks("louvain_sweep");
                let res = guard("louvain_partitions", || louvain::louvain_partitions(&g, true, Some(gamma), threshold, Some(seed)));
                crate::ctx::set_budget("louvain_sweep", None);
                ctx::eval(1);
                let canon = match res {
                    Ok(Ok(l)) => canon_levels(&l),
                    Ok(Err(e)) => format!("error:{}", err_name(&e.kind)),
                    Err(c) => format!("panic:{}", c.class()),
                };
                match &first {
                    None => first = Some(canon),
                    Some(f0) => {
                        if *f0 != canon {
                            ctx::case_desc(json!({"graph": case.json(), "resolution": gamma, "threshold": threshold, "seed": seed}));
                            ctx::violation(
                                &format!("C17|louvain_partitions|differs-between-calls|{}", if case.specs.directed { "directed" } else { "undirected" }),
                                "the same arguments (and seed) gave different partitions on repeated calls in one process",
                                json!({"graph": case.json(), "resolution": gamma, "threshold": threshold, "seed": seed, "repetition": rep, "first_result": f0, "this_result": canon}),
                            );
                            break;
                        }
                    }
                }
            }
            if r % 1000 == 0 {
                ctx::nontrivial(mix(idx, 0x5717));
            }
            ctx::count("reach:small-real-weighted-louvain-inputs");
        }
    }
    if digest_mode {
        ctx::note("digests", json!(digests));
        ctx::note("rayon_threads", json!(rayon::current_num_threads()));
    }
}

//! GraphML: C14 (write-then-read is lossless) and C19 (the reader is total and faithful).

use crate::ctx::{self, guard, Args};
use crate::gen::*;
use crate::hist::kind_class;
use crate::model::*;
use crate::rng::{fnv, mix, Rng};
use graphrs::readwrite::graphml;
use graphrs::{Edge, Graph, Node};
use quick_xml::events::Event;
use quick_xml::Reader;
use serde_json::{json, Value};
use std::collections::HashMap;
use std::sync::Arc;

// ============================================================================ C14

const NAME_POOL: &[&str] = &[
    "a", "B", "n1", "", " ", "  lead", "trail  ", "in ner", "<", ">", "&", "\"", "'", "&amp;", "&lt;x&gt;", "&#65;", "&unknown;",
    "&quot;", "&apos;", "say &quot;hi&quot;", "&amp;quot;", "&amp;amp;", "&#x26;", "&gt;&lt;", "&;", "&#;",
    "]]>", "<!--", "-->", "<![CDATA[", "a<b>c", "x\"y'z", "O'Brien", "say \"hi\"", "x\" id=\"y", "é", "ß", "ñandú", "Ünïcödé",
    "日本語", "中文", "한국어", "😀", "👩‍👩‍👧", "e\u{301}", "a\u{308}\u{323}", "שלום", "مرحبا", "\u{a0}", "\u{2028}", "\u{2029}", "\u{200b}", "\u{feff}x",
    "\u{10ffff}", "\u{e000}", "=", "/>", "</node>", "<node id=\"z\"/>", "%s", "\\", "/", "?", "#", "1e5", "NaN", "inf", "-0",
];

fn unicode_name(rng: &mut Rng, used: &mut std::collections::HashSet<String>) -> String {
    loop {
        let s = match rng.below(4) {
            0 | 1 => NAME_POOL[rng.below(NAME_POOL.len())].to_string(),
            2 => {
                // concatenation of pool members
                format!("{}{}", NAME_POOL[rng.below(NAME_POOL.len())], NAME_POOL[rng.below(NAME_POOL.len())])
            }
            _ => {
                // random scalar values, control characters and non-characters excluded
                let len = rng.range(1, 6);
                let mut s = String::new();
                while s.chars().count() < len {
                    let c = match rng.below(5) {
                        0 => rng.range(0x20, 0x7e) as u32,
                        1 => rng.range(0xa0, 0x24f) as u32,
                        2 => rng.range(0x370, 0xfffd) as u32,
                        3 => rng.range(0x10000, 0x1fffd) as u32,
                        _ => rng.range(0x20, 0x10fffd) as u32,
                    };
                    if let Some(ch) = char::from_u32(c) {
                        if !ch.is_control() && (c & 0xfffe) != 0xfffe && !(0xfdd0..=0xfdef).contains(&c) {
                            s.push(ch);
                        }
                    }
                }
                s
            }
        };
        if used.insert(s.clone()) {
            return s;
        }
    }
}

fn weird_weight(rng: &mut Rng) -> f64 {
    let specials = [
        0.0, -0.0, 5e-324, -5e-324, 2.2250738585072014e-308, 2.225073858507201e-308, f64::MAX, f64::MIN, 1e308, 1.7976931348623157e308,
        f64::INFINITY, f64::NEG_INFINITY, 0.1, 0.2, 0.30000000000000004, 1.0 / 3.0, 1e16, 1e-7, 123456789.12345679, 9007199254740993.0,
        1e21, 1e-5, 1.5, 2.0, 100.0, 4.35, 1e100, 1.2345678901234567e-300, 8.98846567431158e307, 1e22, 1e23,
        5e19, 1e20, 18446744073709551615.0, 18446744073709551616.0, 9.9999999999999998e19, 9223372036854775807.0, 4294967296.0, 1e19, 99999999999999991611392.0,
    ];
    match rng.below(3) {
        0 => specials[rng.below(specials.len())],
        1 => {
            // random bit patterns, NaN excluded
            loop {
                let f = f64::from_bits(rng.next_u64());
                if !f.is_nan() {
                    return f;
                }
            }
        }
        _ => {
            // values needing 17 significant digits at extreme magnitudes
            let m = 1.0 + rng.f64();
            let e = rng.range(0, 600) as i32 - 300;
            m * 10f64.powi(e)
        }
    }
}

fn gs_edges_key(g: &GS) -> Vec<String> {
    let d = g.specs.directed;
    let mut v: Vec<String> = g.get_all_edges().iter().map(|e| ekey(d, &e.u, &e.v, e.weight, &None)).collect();
    v.sort();
    v
}

pub fn run_c14(a: &Args) {
    let kinds = kinds8();
    let total: u64 = if a.thorough { 1_500_000 } else { 30_000 };
    let tmpdir = format!("/verif/.work/c14-{}-{}", std::process::id(), a.shard);
    let _ = std::fs::create_dir_all(&tmpdir);
    let mut written: std::collections::BTreeMap<String, Vec<u8>> = std::collections::BTreeMap::new();
    for idx in 0..total {
        if !ctx::mine(idx) {
            continue;
        }
        let mut rng = Rng::new(mix(a.seed ^ 0xC14, idx));
        let bulk = idx % 600 == 596; // a multiple of 4: bulk documents also go through the file variant
        // bulk graphs are multigraphs (40 nodes cannot hold 1000 single edges), kind rotating
        let specs = if bulk {
            let k = kinds[((idx / 600) % 8) as usize];
            Specs::kind(k.directed, true, k.self_loops)
        } else {
            kinds[(idx % 8) as usize]
        };
        let n = if bulk { 40 } else { rng.range(0, 7) };
        let mut used = std::collections::HashSet::new();
        let mut names: Vec<String> = (0..n).map(|_| unicode_name(&mut rng, &mut used)).collect();
        // names whose concatenations collide: ("01","15_2024") and ("01_15","2024"), ("a","b c") and ("a b","c")
        let colliding = idx % 50 == 7 && !bulk;
        if colliding {
            let sep = *rng.pick(&["_", "-", " ", ":", ".", ",", "|", "->", "--"]);
            names = vec!["01".to_string(), format!("15{}2024", sep), format!("01{}15", sep), "2024".to_string()];
            ctx::count("reach:names-whose-concatenations-collide");
        }
        let n = names.len();
        let wmode = rng.below(3); // 0 unweighted, 1 weighted, 2 mixed
        let mut g: GS = Graph::new(specs.to_real());
        for nm in &names {
            g.add_node(Node::from_name(nm.clone()));
        }
        let mut edge_desc = vec![];
        if n > 0 {
            let m_edges = if bulk {
                ctx::count("reach:more-than-1000-edge-requests");
                if rng.chance(1, 3) { rng.range(3000, 4000) } else { rng.range(1001, 1300) }
            } else {
                rng.range(0, 9)
            };
            let m_edges = if colliding { m_edges.max(2) } else { m_edges };
            for k in 0..m_edges {
                let u = rng.below(n);
                let v = if rng.chance(1, 6) { u } else { rng.below(n) };
                let (u, v) = if colliding && k < 2 { if k == 0 { (0, 1) } else { (2, 3) } } else { (u, v) };
                let w = match wmode {
                    0 => f64::NAN,
                    1 => weird_weight(&mut rng),
                    _ => {
                        if rng.coin() {
                            f64::NAN
                        } else {
                            weird_weight(&mut rng)
                        }
                    }
                };
                let e: Arc<Edge<String, ()>> = Arc::new(Edge { u: names[u].clone(), v: names[v].clone(), attributes: None, weight: w });
                g.add_edge(e).expect("permissive specs");
                edge_desc.push(json!([u, v, wjson(w), format!("{:016x}", w.to_bits())]));
            }
        }
        if g.get_all_edges().len() > 1000 {
            ctx::count("reach:more-than-1000-edges");
        }
        let desc = json!({"kind": specs.kind_label(), "names": names, "edges": edge_desc});
        ctx::case_desc(desc.clone());
        let kind = kind_class(&g);
        let fail = |func: &str, class: &str, detail: Value| {
            ctx::violation(&format!("C14|{}|{}|{}", func, class, kind), &format!("{}: {}", func, class), json!({"detail": detail, "graph": desc}));
        };
        ctx::eval(1);
        let text = match guard("write_graphml_string", || graphml::write_graphml_string(&g)) {
            Ok(Ok(t)) => t,
            Ok(Err(e)) => {
                fail("write_graphml_string", "io-error", json!(format!("{}", e)));
                continue;
            }
            Err(c) => {
                fail("write_graphml_string", &c.class(), c.json());
                continue;
            }
        };
        let back = match guard("read_graphml_string", || graphml::read_graphml_string(&text, specs.to_real())) {
            Ok(Ok(b)) => b,
            Ok(Err(e)) => {
                fail("read_graphml_string", &format!("own-output-rejected:{}", err_name(&e.kind)), json!({"message": e.message, "document": text}));
                continue;
            }
            Err(c) => {
                fail("read_graphml_string", &c.class(), json!({"caught": c.json(), "document": text}));
                continue;
            }
        };
        let got_names: Vec<String> = back.get_all_nodes().iter().map(|x| x.name.clone()).collect();
        if got_names != names {
            fail("roundtrip", "node-names-or-order-changed", json!({"got": got_names, "document": text}));
            continue;
        }
        if back.specs.directed != g.specs.directed {
            fail("roundtrip", "directedness-changed", json!({"document": text}));
            continue;
        }
        if gs_edges_key(&back) != gs_edges_key(&g) {
            // classify: weights only, or structure
            let strip = |x: &GS| {
                let mut v: Vec<(String, String)> = x.get_all_edges().iter().map(|e| if !x.specs.directed && e.u > e.v { (e.v.clone(), e.u.clone()) } else { (e.u.clone(), e.v.clone()) }).collect();
                v.sort();
                v
            };
            let class = if strip(&back) == strip(&g) { "weight-bits-changed" } else { "edge-multiset-changed" };
            fail("roundtrip", class, json!({"got": gs_edges_key(&back), "want": gs_edges_key(&g), "document": text}));
            continue;
        }
        // file variant: same document, same graph
        if idx % 4 == 0 {
            // two alternating paths that are never removed between cases: a shorter document is
            // regularly saved over a longer one
            // five targets in one directory that share their stem (and one of which is called
            // like a scratch file): saving one must leave the others alone
            let path = format!("{}/{}", tmpdir, ["doc.graphml", "doc.xml", "doc.tmp", "doc", "doc.graphml.bak"][((idx / 4) % 5) as usize]);
            if std::fs::metadata(&path).map(|m| m.len() as usize > text.len()).unwrap_or(false) {
                ctx::count("reach:shorter-document-saved-over-longer-file");
            }
            if text.len() > 65536 && !text.is_ascii() {
                ctx::count("reach:file-larger-than-64KiB-with-multibyte-characters");
            }
            if idx % 8 == 0 {
                // a save that cannot succeed (no such directory) comes first; the save that
                // follows on the same thread must still write exactly this document
                let bad = format!("{}/no-such-dir/x.graphml", tmpdir);
                match guard("write_graphml_file", || graphml::write_graphml_file(&g, &bad)) {
                    Ok(Err(_)) => ctx::count("reach:failed-save-before-successful-save"),
                    Ok(Ok(())) => fail("write_graphml_file", "save-into-missing-directory-reported-ok", json!(bad)),
                    Err(c) => fail("write_graphml_file", &c.class(), c.json()),
                }
            }
            match guard("write_graphml_file", || graphml::write_graphml_file(&g, &path)) {
                Ok(Ok(())) => {
                    let bytes = std::fs::read(&path).unwrap_or_default();
                    if bytes != text.as_bytes() {
                        fail("write_graphml_file", "file-differs-from-string-variant", json!({"file_len": bytes.len(), "string_len": text.len()}));
                    }
                    written.insert(path.clone(), text.as_bytes().to_vec());
                    for (other, want) in &written {
                        if *other != path && std::fs::read(other).ok().as_deref() != Some(&want[..]) {
                            fail("write_graphml_file", "saving-one-file-changed-or-removed-another", json!({"saved": path, "damaged": other}));
                            break;
                        }
                    }
                    if written.len() >= 2 {
                        ctx::count("reach:several-files-with-one-stem");
                    }
                    match guard("read_graphml_file", || graphml::read_graphml_file(&path, specs.to_real())) {
                        Ok(Ok(b2)) => {
                            let n2: Vec<String> = b2.get_all_nodes().iter().map(|x| x.name.clone()).collect();
                            if n2 != names || gs_edges_key(&b2) != gs_edges_key(&g) || b2.specs.directed != g.specs.directed {
                                fail("read_graphml_file", "differs-from-original", json!(null));
                            }
                        }
                        Ok(Err(e)) => fail("read_graphml_file", &format!("own-output-rejected:{}", err_name(&e.kind)), json!(e.message)),
                        Err(c) => fail("read_graphml_file", &c.class(), c.json()),
                    }
                    ctx::count("reach:file-variant");
                }
                Ok(Err(e)) => fail("write_graphml_file", "io-error", json!(format!("{}", e))),
                Err(c) => fail("write_graphml_file", &c.class(), c.json()),
            }
        }
        if names.iter().any(|s| s.chars().any(|c| "<>&\"'".contains(c))) {
            ctx::count("reach:xml-special-characters-in-names");
        }
        if names.iter().any(|s| !s.is_ascii()) {
            ctx::count("reach:non-ascii-names");
        }
        if g.get_all_edges().iter().any(|e| !e.weight.is_nan() && (e.weight.abs() >= 1e16 || (e.weight != 0.0 && e.weight.abs() < 1e-6))) {
            ctx::count("reach:extreme-magnitude-weights");
        }
        if g.get_all_edges().iter().any(|e| e.weight.is_infinite()) {
            ctx::count("reach:infinite-weights");
        }
        if !g.get_all_edges().is_empty() {
            ctx::nontrivial(fnv(desc.to_string().as_bytes()));
            ctx::sample_tagged(&specs.kind_label(), || json!({"graph": desc.clone(), "document": text}));
        }
    }
    let _ = std::fs::remove_dir_all(&tmpdir);
}

// ============================================================================ C19

/// What an independent scan of the document found.
#[derive(Debug, Default)]
struct DocScan {
    tokenizer_error: bool,
    nodes: Vec<String>,
    /// (source, target, weight if a well-placed weight data element was found)
    edges: Vec<(String, String, Option<f64>)>,
    graph_elements: usize,
    edgedefault: Option<String>,
    /// the meaning of the weights is not fixed by the statement (misplaced data, late or
    /// duplicate key declarations, CDATA content, ...)
    weights_unspecified: bool,
    /// an element the reader must look at had unreadable attributes (duplicates, bad escapes)
    attr_error: bool,
    /// node / edge / graph elements nested inside a data element
    elements_inside_data: bool,
    missing_required_attr: bool,
}

fn attrs_of(e: &quick_xml::events::BytesStart) -> Result<HashMap<String, String>, ()> {
    let mut m = HashMap::new();
    for a in e.attributes() {
        let a = a.map_err(|_| ())?;
        let k = String::from_utf8(a.key.local_name().as_ref().to_vec()).map_err(|_| ())?;
        let v = a.unescape_value().map_err(|_| ())?.into_owned();
        m.insert(k, v);
    }
    Ok(m)
}

fn scan_document(text: &str) -> DocScan {
    let mut s = DocScan::default();
    let mut reader = Reader::from_str(text);
    let mut stack: Vec<(Vec<u8>, bool)> = vec![]; // (element name, is weight data)
    let mut weight_key = "weight".to_string();
    let mut weight_key_decls = 0usize;
    let mut seen_data = false;
    let mut steps = 0usize;
    loop {
        steps += 1;
        if steps > text.len() + 16 {
            s.tokenizer_error = true;
            break;
        }
        let ev = match reader.read_event() {
            Ok(ev) => ev,
            Err(_) => {
                s.tokenizer_error = true;
                break;
            }
        };
        match ev {
            Event::Eof => break,
            Event::Start(ref e) | Event::Empty(ref e) => {
                let is_start = matches!(ev, Event::Start(_));
                let name = e.name().as_ref().to_vec();
                let inside_data = stack.iter().any(|(n, _)| n == b"data");
                let parent_is_edge = stack.last().map(|(n, _)| n == b"edge").unwrap_or(false);
                let mut is_weight_data = false;
                match name.as_slice() {
                    b"node" | b"edge" | b"graph" | b"key" | b"data" => {
                        if inside_data && name.as_slice() != b"data" {
                            s.elements_inside_data = true;
                        }
                        match attrs_of(e) {
                            Err(()) => s.attr_error = true,
                            Ok(at) => match name.as_slice() {
                                b"node" => match at.get("id") {
                                    Some(id) => s.nodes.push(id.clone()),
                                    None => s.missing_required_attr = true,
                                },
                                b"edge" => match (at.get("source"), at.get("target")) {
                                    (Some(u), Some(v)) => s.edges.push((u.clone(), v.clone(), None)),
                                    _ => s.missing_required_attr = true,
                                },
                                b"graph" => {
                                    s.graph_elements += 1;
                                    match at.get("edgedefault") {
                                        Some(v) => s.edgedefault = Some(v.clone()),
                                        None => s.missing_required_attr = true,
                                    }
                                }
                                b"key" => {
                                    if at.get("attr.name").map(|x| x.as_str()) == Some("weight") {
                                        if at.get("for").map(|x| x.as_str()) == Some("edge") {
                                            match at.get("id") {
                                                Some(id) => {
                                                    weight_key_decls += 1;
                                                    if weight_key_decls > 1 && *id != weight_key {
                                                        s.weights_unspecified = true;
                                                    }
                                                    if seen_data {
                                                        s.weights_unspecified = true;
                                                    }
                                                    weight_key = id.clone();
                                                }
                                                None => s.missing_required_attr = true,
                                            }
                                        } else {
                                            s.weights_unspecified = true;
                                        }
                                    }
                                }
                                _ => {
                                    seen_data = true;
                                    if at.get("key") == Some(&weight_key) {
                                        if parent_is_edge && is_start {
                                            is_weight_data = true;
                                        } else {
                                            // misplaced, or an empty <data/>: the statement fixes no meaning
                                            s.weights_unspecified = true;
                                        }
                                    } else if at.get("key").map(|k| k == "weight").unwrap_or(false) {
                                        // data naming the default key while another key is declared
                                        s.weights_unspecified = true;
                                    }
                                }
                            },
                        }
                    }
                    _ => {
                        if inside_data {
                            s.weights_unspecified = true;
                        }
                    }
                }
                if is_start {
                    stack.push((name, is_weight_data));
                }
            }
            Event::End(_) => {
                stack.pop();
            }
            Event::Text(ref t) => {
                if let Some((_, true)) = stack.last() {
                    // well-placed weight data: a single text child that parses as a number
                    match t.unescape() {
                        Ok(txt) => match txt.parse::<f64>() {
                            Ok(w) => {
                                if let Some(last) = s.edges.last_mut() {
                                    if last.2.is_some() {
                                        s.weights_unspecified = true; // two weight data elements in one edge
                                    }
                                    last.2 = Some(w);
                                }
                            }
                            Err(_) => s.weights_unspecified = true,
                        },
                        Err(_) => s.weights_unspecified = true,
                    }
                }
            }
            Event::CData(_) => {
                if let Some((_, true)) = stack.last() {
                    s.weights_unspecified = true;
                }
            }
            Event::Comment(_) | Event::PI(_) | Event::Decl(_) | Event::DocType(_) => {
                if let Some((_, true)) = stack.last() {
                    s.weights_unspecified = true;
                }
            }
        }
    }
    s
}

// ---- document generator

fn esc(s: &str) -> String {
    s.replace('&', "&amp;").replace('<', "&lt;").replace('>', "&gt;").replace('"', "&quot;")
}

struct DocGen {
    text: String,
}

fn gen_document(rng: &mut Rng, hostile: bool) -> String {
    // names that need escaping come early: every document with two or more nodes has one
    let names: [&str; 7] = if rng.coin() { ["a", "x&y", "b", "n 1", "é", "c<d>\"e'", ""] } else { ["x&y", "b", "c<d>\"e'", "a", "n 1", "é", ""] };
    let n = rng.range(0, 6);
    let mut t = String::new();
    if rng.chance(1, 3) {
        t.push_str("<?xml version=\"1.0\" encoding=\"UTF-8\"?>\n");
    }
    t.push_str("<graphml xmlns=\"http://graphml.graphdrawing.org/xmlns\">");
    let wkey = if rng.chance(1, 3) { "d0" } else { "weight" };
    let key_mode = rng.below(if hostile { 7 } else { 3 });
    match key_mode {
        0 => t.push_str(&format!("<key id=\"{}\" for=\"edge\" attr.name=\"weight\" attr.type=\"double\"/>", wkey)),
        1 => t.push_str(&format!("<key id=\"{}\" for=\"edge\" attr.name=\"weight\" attr.type=\"double\"><default>1</default></key>", wkey)),
        2 => {}
        3 => t.push_str("<key attr.name=\"weight\" id=\"w\"/>"),
        4 => t.push_str("<key attr.name=\"weight\" for=\"edge\"/>"),
        5 => t.push_str("<key id=\"c\" for=\"node\" attr.name=\"color\"/><key id=\"w2\" for=\"edge\" attr.name=\"weight\"/>"),
        _ => t.push_str("<key id=\"weight\" for=\"all\" attr.name=\"weight\"/>"),
    }
    let wkey = match key_mode {
        0 | 1 => wkey,
        5 => "w2",
        _ => "weight",
    };
    let graphs = if hostile && rng.chance(1, 6) { 2 } else { 1 };
    for _ in 0..graphs {
        let ed = if rng.coin() { "directed" } else { "undirected" };
        let ed = if hostile && rng.chance(1, 10) { "sideways" } else { ed };
        if n == 0 && rng.coin() {
            t.push_str(&format!("<graph edgedefault=\"{}\"/>", ed));
            continue;
        }
        if hostile && rng.chance(1, 12) {
            t.push_str("<graph id=\"G\">");
        } else if rng.chance(1, 5) {
            // GraphML parse hints, plausible and absurd
            let hint = *rng.pick(&["3", "0", "4611686018427387904", "18446744073709551615", "99999999999999999999", "-1", "many", "1e9", "4294967296"]);
            t.push_str(&format!("<graph id=\"G\" edgedefault=\"{}\" parse.nodes=\"{}\" parse.edges=\"{}\" parse.order=\"nodesfirst\" parse.nodeids=\"free\" parse.edgeids=\"free\" parse.maxindegree=\"{}\">", ed, hint, hint, hint));
        } else {
            t.push_str(&format!("<graph id=\"G\" edgedefault=\"{}\">", ed));
        }
        if rng.chance(1, 4) {
            t.push_str("<!-- a comment -->");
        }
        for i in 0..n {
            let nm = names[i % names.len()];
            if hostile && rng.chance(1, 15) {
                t.push_str("<node/>");
            } else if hostile && rng.chance(1, 15) {
                t.push_str(&format!("<node id=\"{}\" id=\"dup\"/>", esc(nm)));
            } else if hostile && rng.chance(1, 15) {
                t.push_str("<node id=\"&foo;\"/>");
            } else if rng.chance(1, 3) {
                t.push_str(&format!("<node id=\"{}\"><data key=\"c\">{}</data></node>", esc(nm), if rng.coin() { "red" } else { "5" }));
            } else {
                t.push_str(&format!("<node id=\"{}\"/>", esc(nm)));
            }
        }
        let m = rng.range(0, 6);
        for _ in 0..m {
            if n == 0 {
                break;
            }
            let u = names[rng.below(n) % names.len()];
            let v = names[rng.below(n + if hostile { 1 } else { 0 }) % names.len()];
            let w = match rng.below(if hostile { 11 } else { 8 }) {
                8 => (*rng.pick(&["18446744073709551616", "99999999999999999999", "18446744073709551615", "9223372036854775808", "00000000000000000001", "123456789012345678901234567890"])).to_string(),
                9 => (*rng.pick(&["1e400", "-1e400", "1e-400", "+5", ".5", "5.", "0x10", "1_000", "Infinity", "-inf", "+inf", "nan", "1e", "1e+", "--1", "1.5.2", "\u{661}\u{662}"])).to_string(),
                10 => format!("{}", rng.next_u64()),
                0 => "1.5".to_string(),
                1 => "2".to_string(),
                2 => "1e3".to_string(),
                3 => "0.1".to_string(),
                4 => "inf".to_string(),
                5 => "-0".to_string(),
                6 => "7.25".to_string(),
                _ => "3".to_string(),
            };
            let w = if !hostile && rng.chance(1, 6) { "".to_string() } else { w };
            let w = if hostile {
                match rng.below(12) {
                    0 => "abc".to_string(),
                    1 => "1&#46;5".to_string(),
                    2 => " 1.5 ".to_string(),
                    3 => "".to_string(),
                    4 => "<![CDATA[1.5]]>".to_string(),
                    5 => "1.5<!-- c -->".to_string(),
                    6 => "&bogus;".to_string(),
                    7 => "NaN".to_string(),
                    _ => w,
                }
            } else {
                w
            };
            let other = *rng.pick(&["x", "7", "2.5", "1e3", "-4"]);
            match rng.below(if hostile { 16 } else { 5 }) {
                // a self-closing element (it has no content to interpret) ahead of the edge's own,
                // well-placed weight data
                10 | 12 | 14 => t.push_str(&format!("<edge source=\"{}\" target=\"{}\"><node id=\"{}\"/><data key=\"{}\">{}</data></edge>", esc(u), esc(v), esc(u), wkey, w)),
                11 | 13 | 15 => t.push_str(&format!("<edge source=\"{}\" target=\"{}\"><key id=\"zz\" for=\"node\" attr.name=\"colour\"/><desc/><data key=\"{}\">{}</data></edge>", esc(u), esc(v), wkey, w)),
                0 => t.push_str(&format!("<edge source=\"{}\" target=\"{}\"/>", esc(u), esc(v))),
                4 => t.push_str(&format!("<edge source=\"{}\" target=\"{}\"><data key=\"other\">{}</data></edge>", esc(u), esc(v), other)),
                1 | 2 => t.push_str(&format!("<edge source=\"{}\" target=\"{}\"><data key=\"{}\">{}</data></edge>", esc(u), esc(v), wkey, w)),
                3 => t.push_str(&format!("<edge id=\"e\" source=\"{}\" target=\"{}\"><data key=\"other\">{}</data><data key=\"{}\">{}</data></edge>", esc(u), esc(v), other, wkey, w)),
                5 => t.push_str(&format!("<edge source=\"{}\"/>", esc(u))),
                6 => t.push_str(&format!("<edge source=\"{}\" target=\"{}\"></edge><data key=\"{}\">{}</data>", esc(u), esc(v), wkey, w)),
                7 => t.push_str(&format!("<edge source=\"{}\" target=\"{}\"><data key=\"{}\"/></edge>", esc(u), esc(v), wkey)),
                8 => t.push_str(&format!("<edge source=\"{}\" target=\"{}\"><data key=\"{}\"><node id=\"inner\"/></data></edge>", esc(u), esc(v), wkey)),
                _ => t.push_str(&format!("<data key=\"{}\">{}</data><edge source=\"{}\" target=\"{}\"/>", wkey, w, esc(u), esc(v))),
            }
        }
        t.push_str("</graph>");
    }
    t.push_str("</graphml>");
    if hostile && rng.chance(1, 10) {
        t.push_str("<trailing>");
    }
    t
}

const FRAGMENTS: &[&str] = &[
    "",
    " ",
    "<",
    "<graphml",
    "<graphml>",
    "<graphml><graph edgedefault=\"undirected\"/></graphml>",
    "<graphml><graph edgedefault=\"directed\"><node id=\"a\" id=\"b\"/></graph></graphml>",
    "<graphml><graph edgedefault=\"directed\"><node id=\"&foo;\"/></graph></graphml>",
    "<graphml><key attr.name=\"weight\" id=\"w\"/><graph edgedefault=\"directed\"/></graphml>",
    "<graphml><key attr.name=\"weight\" for=\"edge\"/><graph edgedefault=\"directed\"/></graphml>",
    "<graphml><graph edgedefault=\"directed\"><node id=\"a\"/><node id=\"b\"/><edge source=\"a\" target=\"b\"><data key=\"weight\">abc</data></edge></graph></graphml>",
    "<graphml><graph edgedefault=\"directed\"><node id=\"a\"/><node id=\"b\"/><edge source=\"a\" target=\"b\"><data key=\"weight\">1&#46;5</data></edge></graph></graphml>",
    "<graphml><graph edgedefault=\"directed\"><data key=\"weight\">1.5</data></graph></graphml>",
    "<graphml><data key=\"weight\">1.5</data></graphml>",
    "<data key=\"weight\">",
    "<data key=\"weight\">1",
    "<data key=\"weight\"><!-- x -->",
    "<graphml><graph edgedefault=\"directed\"><node id=\"a\"/><edge source=\"a\" target=\"a\"><data key=\"weight\">",
    "<graphml><graph edgedefault=\"directed\"><node id=\"a\"/><node id=\"b\"/><edge source=\"a\" target=\"b\"><data key=\"weight\"/><node id=\"c\"/></edge></graph></graphml>",
    "<graphml><graph edgedefault=\"undirected\"><node id=\"a\"/><node id=\"b\"/><edge source=\"a\" target=\"b\"><data key=\"weight\"/></edge><edge source=\"b\" target=\"a\"/></graph></graphml>",
    "<graphml><graph edgedefault=\"directed\"><node id=\"a\"/></graph><graph edgedefault=\"undirected\"><node id=\"b\"/></graph></graphml>",
    "<graphml><graph edgedefault=\"directed\"><node id=\"a\"/><node id=\"b\"/><node id=\"c\"/><edge source=\"a\" target=\"b\"><data key=\"weight\"></data></edge><edge source=\"b\" target=\"c\"><data key=\"other\">3</data></edge></graph></graphml>",
    "<graphml><graph edgedefault=\"directed\"><node id=\"a\"><data key=\"weight\"></data></node><node id=\"b\"/><edge source=\"a\" target=\"b\"><data key=\"label\">9</data></edge></graph></graphml>",
    "<graphml><graph><node id=\"a\"/></graph></graphml>",
    "<graphml><graph edgedefault=\"both\"><node id=\"a\"/></graph></graphml>",
    "<graphml><graph edgedefault=\"directed\"><edge source=\"a\" target=\"b\"/></graph></graphml>",
    "<graphml><graph edgedefault=\"directed\"><node id=\"a\"/><edge source=\"a\" target=\"a\"/></graph></graphml>",
    "<graphml><graph edgedefault=\"directed\"><node id=\"a\"/><node id=\"b\"/><edge source=\"a\" target=\"b\"/><edge source=\"a\" target=\"b\"/></graph></graphml>",
    "<graphml><graph edgedefault=\"directed\"><node></node><edge/></graph></graphml>",
    "<?xml version=\"1.0\"?><!DOCTYPE graphml [<!ENTITY x \"y\">]><graphml><graph edgedefault=\"directed\"><node id=\"&x;\"/></graph></graphml>",
    "<graphml><graph edgedefault=\"directed\"><node id=\"a\"></graph></graphml>",
    "</graphml>",
    "<a></b>",
    "<graphml><graph edgedefault='directed'><node id='a'/></graph></graphml>",
    "<graphml><graph edgedefault=directed><node id=a/></graph></graphml>",
    "<graphml><graph edgedefault=\"directed\"><node id=\"a\"/><![CDATA[<node id=\"b\"/>]]></graph></graphml>",
    "\u{feff}<graphml><graph edgedefault=\"directed\"><node id=\"a\"/></graph></graphml>",
];

fn c19_specs() -> Vec<Specs> {
    vec![
        Specs { directed: true, multi: false, self_loops: false, dedupe: Dedupe::Error, missing_create: false, loops_drop: false },
        Specs { directed: true, multi: false, self_loops: false, dedupe: Dedupe::KeepLast, missing_create: true, loops_drop: true },
        Specs { directed: true, multi: true, self_loops: true, dedupe: Dedupe::Error, missing_create: true, loops_drop: false },
        Specs { directed: false, multi: false, self_loops: true, dedupe: Dedupe::KeepFirst, missing_create: false, loops_drop: false },
        Specs { directed: false, multi: true, self_loops: false, dedupe: Dedupe::Error, missing_create: true, loops_drop: true },
        Specs { directed: false, multi: false, self_loops: false, dedupe: Dedupe::Error, missing_create: true, loops_drop: false },
    ]
}

/// Reads one document under every representative spec and judges the outcome.
fn judge_document(text: &str, origin: &str) {
    let scan = scan_document(text);
    let budget = text.len() as u64 + 16;
    for specs in c19_specs() {
        ctx::eval(1);
        graphrs::verif_hooks::take_ticks("graphml_event");
        crate::ctx::set_budget("graphml_event", Some(budget));
        let res = guard("read_graphml_string", || graphml::read_graphml_string(text, specs.to_real()));
        let ticks = graphrs::verif_hooks::take_ticks("graphml_event");
        crate::ctx::set_budget("graphml_event", None);
        ctx::maxf("max_event_loop_iterations_over_input_length", ticks as f64 / (text.len().max(1)) as f64);
        let fail = |class: &str, detail: Value| {
            ctx::violation(&format!("C19|read_graphml_string|{}|{}", class, origin), &format!("read_graphml_string: {}", class), json!({"detail": detail, "document": text, "specs": specs.label(), "origin": origin}));
        };
        let g = match res {
            Err(c) => {
                fail(&c.class(), c.json());
                continue;
            }
            Ok(Err(_)) => {
                ctx::count("outcome:err");
                continue;
            }
            Ok(Ok(g)) => g,
        };
        ctx::count("outcome:ok");
        // content: only where the statement fixes the meaning
        if scan.tokenizer_error || scan.attr_error || scan.missing_required_attr {
            ctx::count("content-not-compared:malformed-document-accepted-or-partially-read");
            continue;
        }
        if scan.elements_inside_data {
            ctx::count("content-compared:elements-inside-data");
        }
        if scan.graph_elements == 1 {
            let want_directed = match scan.edgedefault.as_deref() {
                Some("directed") => Some(true),
                Some("undirected") => Some(false),
                _ => None,
            };
            match want_directed {
                Some(w) if w != g.specs.directed => {
                    fail("wrong-directedness", json!({"declared": scan.edgedefault, "got_directed": g.specs.directed}));
                    continue;
                }
                None => {
                    fail("graph-returned-for-invalid-edgedefault", json!({"declared": scan.edgedefault}));
                    continue;
                }
                _ => {}
            }
        }
        // replay nodes then edges on the Model with the directedness the reader chose
        let mspecs = Specs { directed: g.specs.directed, ..specs };
        let mut cands = vec![Model::new(mspecs)];
        let nodes: Vec<(String, Option<i32>)> = scan.nodes.iter().map(|n| (n.clone(), None)).collect();
        cands = crate::hist::model_apply(&cands, &crate::hist::Op::AddNodes(nodes)).into_iter().map(|x| x.1).collect();
        let edges: Vec<MEdge> = scan.edges.iter().map(|(u, v, w)| MEdge::new(u, v, w.unwrap_or(f64::NAN), None)).collect();
        let predicted = crate::hist::model_apply(&cands, &crate::hist::Op::AddEdges(edges));
        let got_nodes: Vec<String> = g.get_all_nodes().iter().map(|n| n.name.clone()).collect();
        let ignore_w = scan.weights_unspecified;
        let ekeys = |it: Vec<(String, String, f64)>| {
            let mut v: Vec<String> = it.iter().map(|(u, v, w)| ekey(g.specs.directed, u, v, if ignore_w { 0.0 } else { *w }, &None)).collect();
            v.sort();
            v
        };
        let got_edges = ekeys(g.get_all_edges().iter().map(|e| (e.u.clone(), e.v.clone(), e.weight)).collect());
        let ok = predicted.iter().any(|(o, m)| {
            o.is_none() && m.nodes.iter().map(|x| x.0.clone()).collect::<Vec<_>>() == got_nodes && ekeys(m.edges.iter().map(|e| (e.u.clone(), e.v.clone(), e.w)).collect()) == got_edges
        });
        if !ok {
            let class = if predicted.iter().all(|(o, _)| o.is_some()) {
                "graph-returned-although-an-edge-violates-the-specs"
            } else if predicted.iter().any(|(o, m)| o.is_none() && m.nodes.iter().map(|x| x.0.clone()).collect::<Vec<_>>() != got_nodes) {
                "node-elements-differ"
            } else {
                "edge-elements-differ"
            };
            fail(class, json!({"got_nodes": got_nodes, "got_edges": got_edges, "document_nodes": scan.nodes, "document_edges": scan.edges.iter().map(|(u, v, w)| json!([u, v, w])).collect::<Vec<_>>(), "weights_compared": !ignore_w}));
        } else {
            ctx::count("content-compared:graph-matches-document");
        }
    }
}

pub fn run_c19(a: &Args) {
    let mut idx: u64 = 0;
    // (c) hand-picked hostile fragments
    for f in FRAGMENTS {
        let this = idx;
        idx += 1;
        if !ctx::mine(this) {
            continue;
        }
        ctx::case_desc(json!({"fragment": f}));
        judge_document(f, "fragment");
        ctx::nontrivial(fnv(f.as_bytes()));
    }
    // deep nesting (stack) and long attribute lists
    for depth in [1_000usize, 10_000, 100_000] {
        let this = idx;
        idx += 1;
        if !ctx::mine(this) {
            continue;
        }
        let mut t = String::from("<graphml><graph edgedefault=\"directed\">");
        for _ in 0..depth {
            t.push_str("<data key=\"x\">");
        }
        t.push_str("<node id=\"deep\"/>");
        if depth != 10_000 {
            for _ in 0..depth {
                t.push_str("</data>");
            }
            t.push_str("</graph></graphml>");
        }
        ctx::case_desc(json!({"deep_nesting": depth}));
        judge_document(&t, "deep-nesting");
        ctx::nontrivial(depth as u64);
    }
    // (a) grammar-generated documents
    let docs: u64 = if a.thorough { 60_000 } else { 1_500 };
    let base_a = 1000;
    for r in 0..docs {
        let this = base_a + r;
        if !ctx::mine(this) {
            continue;
        }
        let mut rng = Rng::new(mix(a.seed ^ 0xC19, this));
        let hostile = r % 2 == 1;
        let text = gen_document(&mut rng, hostile);
        ctx::case_desc(json!({"document": text}));
        judge_document(&text, if hostile { "grammar-hostile" } else { "grammar-wellformed" });
        ctx::nontrivial(fnv(text.as_bytes()));
        ctx::sample_tagged(if hostile { "grammar-hostile" } else { "grammar-wellformed" }, || json!(text));
    }
    // (b) fault enumeration over well-formed base documents: every truncation, every single-byte
    // deletion and duplication, bit flips that keep the text valid UTF-8
    let bases: u64 = if a.thorough { 1_500 } else { 40 };
    let base_b = 100_000;
    for r in 0..bases {
        let this = base_b + r;
        if !ctx::mine(this) {
            continue;
        }
        let mut rng = Rng::new(mix(a.seed ^ 0xFA19, this));
        let text = loop {
            let t = gen_document(&mut rng, false);
            if t.len() >= 150 && t.len() <= 700 {
                break t;
            }
        };
        let bytes = text.as_bytes();
        let mut variants = 0u64;
        let mut run = |v: Vec<u8>, origin: &str| {
            if let Ok(s) = String::from_utf8(v) {
                ctx::case_desc(json!({"base": text, "variant": s, "fault": origin}));
                judge_document(&s, origin);
                variants += 1;
            }
        };
        for cut in 0..=bytes.len() {
            run(bytes[..cut].to_vec(), "fault-truncation");
        }
        for i in 0..bytes.len() {
            let mut v = bytes.to_vec();
            v.remove(i);
            run(v, "fault-byte-deletion");
            let mut v = bytes.to_vec();
            v.insert(i, bytes[i]);
            run(v, "fault-byte-duplication");
            let bit = 1u8 << rng.below(7);
            let mut v = bytes.to_vec();
            v[i] ^= bit;
            run(v, "fault-bit-flip");
        }
        // element-level deletion and duplication
        let mut starts: Vec<usize> = vec![];
        for (i, b) in bytes.iter().enumerate() {
            if *b == b'<' {
                starts.push(i);
            }
        }
        for w in starts.windows(2) {
            let mut v = bytes[..w[0]].to_vec();
            v.extend_from_slice(&bytes[w[1]..]);
            run(v, "fault-tag-deletion");
            let mut v = bytes[..w[1]].to_vec();
            v.extend_from_slice(&bytes[w[0]..]);
            run(v, "fault-tag-duplication");
        }
        ctx::count_n("fault-variants", variants);
        ctx::count("fault-bases-fully-enumerated");
        ctx::nontrivial(fnv(text.as_bytes()));
        ctx::sample_tagged("fault-base", || json!({"base_document": text, "variants_enumerated": variants}));
    }
}

//! Monitors driven by mutation histories and the reference Model: C01, C02, C03, C09, C15.

use crate::ctx::{self, guard, Args};
use crate::hist::*;
use crate::model::*;
use crate::oracle::{self, Dense, INF};
use crate::rng::{fnv, mix, Rng};
use graphrs::algorithms::centrality::{betweenness, closeness, degree};
use graphrs::algorithms::shortest_path::dijkstra;
use graphrs::{ErrorKind, Graph};
use serde_json::{json, Value};
use std::collections::BTreeSet;

fn approx(a: f64, b: f64) -> bool {
    if a.is_nan() || b.is_nan() {
        return a.is_nan() && b.is_nan();
    }
    if a == b {
        return true;
    }
    (a - b).abs() <= 1e-9 * 1.0f64.max(a.abs()).max(b.abs())
}

fn pick_wmode(rng: &mut Rng, allow_wild: bool) -> WMode {
    match rng.below(if allow_wild { 3 } else { 2 }) {
        0 => WMode::AllNaN,
        1 => WMode::AllReal,
        _ => WMode::Wild,
    }
}

fn history_desc(specs: &Specs, ops: &[Op]) -> Value {
    json!({"specs": specs.label(), "history": ops.iter().map(|o| o.json()).collect::<Vec<_>>()})
}

// ============================================================================ C01

pub fn run_c01(a: &Args) {
    let specs_all = Specs::all();
    let per_spec: u64 = if a.thorough { 8000 } else { 400 };
    let maxlen = if a.thorough { 40 } else { 20 };
    let mon = Monitors { prop: "C01", mutation_semantics: true, queries: false, traversal: false, counts: false, every_op: false };
    let total = specs_all.len() as u64 * per_spec;
    for idx in 0..total {
        if !ctx::mine(idx) {
            continue;
        }
        let specs = specs_all[(idx / per_spec) as usize];
        let mut rng = Rng::new(mix(a.seed, idx));
        let wmode = pick_wmode(&mut rng, true);
        let len = rng.range(1, maxlen);
        let (names, mut ops) = gen_history(&mut rng, len, wmode, true);
        if idx % 9 == 8 {
            // a hub whose 33..70 neighbours are attached in an order unrelated to the order the
            // nodes were created in, then duplicates of old, middle and recent hub edges
            let hub = names[0].clone();
            let deg = rng.range(33, 70);
            let fillers: Vec<String> = (0..deg).map(|i| format!("h{:02}", i)).collect();
            let mut pre = vec![Op::AddNodes(std::iter::once((hub.clone(), None)).chain(fillers.iter().map(|f| (f.clone(), None))).collect())];
            let mut order: Vec<usize> = (0..deg).collect();
            rng.shuffle(&mut order);
            let hub_first = rng.coin();
            for &i in &order {
                let (x, y) = if hub_first { (&hub, &fillers[i]) } else { (&fillers[i], &hub) };
                pre.push(Op::AddEdge(MEdge::new(x, y, draw_weight(wmode, &mut rng), None)));
            }
            for _ in 0..rng.range(2, 6) {
                let f = &fillers[order[match rng.below(3) { 0 => rng.below(4), 1 => deg - 1 - rng.below(4), _ => rng.below(deg) }]];
                let (x, y) = if hub_first != rng.chance(1, 4) { (&hub, f) } else { (f, &hub) };
                pre.push(Op::AddEdge(MEdge::new(x, y, draw_weight(wmode, &mut rng), None)));
            }
            pre.extend(ops);
            ops = pre;
            ctx::count("reach:hub-with-33-or-more-neighbours");
        }
        ctx::case_desc(history_desc(&specs, &ops));
        let lock = run_history(specs, &names, &ops, &mon);
        if !lock.tags.is_empty() {
            ctx::nontrivial(history_hash(&specs, &ops));
        }
        if !lock.tags.is_empty() && ops.len() <= 8 {
            ctx::sample_tagged(&specs.kind_label(), || history_desc(&specs, &ops));
        }
        // the same nodes and edges through the constructor
        constructor_case(&specs, &ops, "C01");
    }
    // the preset specs and the value constructors every history above is written in terms of
    if ctx::mine(total) {
        presets_and_constructors();
    }
}

fn presets_and_constructors() {
    use graphrs::{Edge, GraphSpecs, Node};
    ctx::case_desc(json!("GraphSpecs presets, Edge and Node constructors"));
    let fail = |what: &str, detail: Value| ctx::violation(&format!("C01|{}|not-as-named|any", what), &format!("{} does not build what its name says", what), detail);
    let base = Specs { directed: true, multi: false, self_loops: false, dedupe: Dedupe::Error, missing_create: false, loops_drop: false };
    let presets: [(&str, GraphSpecs, Specs); 6] = [
        ("GraphSpecs::directed", GraphSpecs::directed(), base),
        ("GraphSpecs::undirected", GraphSpecs::undirected(), Specs { directed: false, ..base }),
        ("GraphSpecs::directed_create_missing", GraphSpecs::directed_create_missing(), Specs { missing_create: true, ..base }),
        ("GraphSpecs::undirected_create_missing", GraphSpecs::undirected_create_missing(), Specs { directed: false, missing_create: true, ..base }),
        ("GraphSpecs::multi_directed", GraphSpecs::multi_directed(), Specs { multi: true, self_loops: true, ..base }),
        ("GraphSpecs::multi_undirected", GraphSpecs::multi_undirected(), Specs { directed: false, multi: true, self_loops: true, ..base }),
    ];
    for (name, got, want) in presets {
        ctx::eval(1);
        let g = Specs::from_real(&got);
        if g != want {
            fail(name, json!({"got": g.label(), "want": want.label()}));
        }
    }
    ctx::eval(6);
    let e = Edge::<String, i32>::new("b".to_string(), "a".to_string());
    if e.u != "b" || e.v != "a" || !e.weight.is_nan() || e.attributes.is_some() {
        fail("Edge::new", json!(format!("{:?}", (&e.u, &e.v, e.weight, e.attributes))));
    }
    let w = Edge::<String, i32>::with_weight("b".to_string(), "a".to_string(), -0.0);
    if w.u != "b" || w.v != "a" || w.weight.to_bits() != (-0.0f64).to_bits() || w.attributes.is_some() {
        fail("Edge::with_weight", json!(format!("{:?}", (&w.u, &w.v, w.weight, w.attributes))));
    }
    let o = w.ordered();
    if o.u != "a" || o.v != "b" || o.weight.to_bits() != w.weight.to_bits() || o.attributes != w.attributes {
        fail("Edge::ordered", json!(format!("{:?}", (&o.u, &o.v, o.weight))));
    }
    let o2 = o.ordered();
    if o2.u != "a" || o2.v != "b" {
        fail("Edge::ordered", json!("an ordered edge was reordered"));
    }
    let r = w.reversed();
    if r.u != "a" || r.v != "b" || r.weight.to_bits() != w.weight.to_bits() || r.attributes != w.attributes {
        fail("Edge::reversed", json!(format!("{:?}", (&r.u, &r.v, r.weight))));
    }
    let n = Node::<String, i32>::from_name("x".to_string());
    if n.name != "x" || n.attributes.is_some() {
        fail("Node::from_name", json!(format!("{:?}", (&n.name, n.attributes))));
    }
    let n2 = Node::<String, i32>::from_name_and_attributes("x".to_string(), 7);
    if n2.name != "x" || n2.attributes != Some(7) {
        fail("Node::from_name_and_attributes", json!(format!("{:?}", (&n2.name, n2.attributes))));
    }
    ctx::count("checked:presets-and-constructors");
    ctx::nontrivial(0xC0157);
}

/// new_from_nodes_and_edges(nodes, edges, specs) must give the graph that add_nodes followed
/// by add_edges gives, or fail iff the model fails.
fn constructor_case(specs: &Specs, ops: &[Op], prop: &'static str) {
    let mut nodes: Vec<(String, Option<i32>)> = vec![];
    let mut edges: Vec<MEdge> = vec![];
    for op in ops {
        match op {
            Op::AddNode(n, at) => nodes.push((n.clone(), *at)),
            Op::AddNodes(l) => nodes.extend(l.iter().cloned()),
            Op::AddEdge(e) => edges.push(e.clone()),
            Op::AddEdgeTuple(u, v) => edges.push(MEdge::new(u, v, f64::NAN, None)),
            Op::AddEdges(es) => edges.extend(es.iter().cloned()),
            Op::AddEdgeTuples(ts) => edges.extend(ts.iter().map(|(u, v)| MEdge::new(u, v, f64::NAN, None))),
        }
    }
    let start = vec![Model::new(*specs)];
    let after_nodes: Vec<Model> = model_apply(&start, &Op::AddNodes(nodes.clone())).into_iter().map(|x| x.1).collect();
    let predicted = model_apply(&after_nodes, &Op::AddEdges(edges.clone()));
    // identical edges are passed as clones of one Arc (as in `vec![edge; k]`)
    let mut arcs: std::collections::HashMap<String, std::sync::Arc<graphrs::Edge<String, i32>>> = std::collections::HashMap::new();
    let real_edges: Vec<_> = edges
        .iter()
        .map(|e| arcs.entry(format!("{:?}>{:?}|{}|{:?}", e.u, e.v, wkey(e.w), e.attr)).or_insert_with(|| e.to_real()).clone())
        .collect();
    let res = guard("new_from_nodes_and_edges", || {
        Graph::<String, i32>::new_from_nodes_and_edges(nodes.iter().map(|(n, at)| mnode(n, *at)).collect(), real_edges, specs.to_real())
    });
    ctx::eval(1);
    let kind = format!("{}{}", if specs.directed { "directed" } else { "undirected" }, if specs.multi { "-multi" } else { "" });
    let detail = || json!({"specs": specs.label(), "nodes": format!("{:?}", nodes), "edges": edges.iter().map(|e| json!([e.u, e.v, wjson(e.w), e.attr])).collect::<Vec<_>>()});
    match res {
        Err(c) => ctx::violation(&format!("{}|new_from_nodes_and_edges|{}|{}", prop, c.class(), kind), "constructor panicked", json!({"caught": c.json(), "input": detail()})),
        Ok(Ok(g)) => {
            let ok = predicted.iter().any(|(o, m)| o.is_none() && {
                let n: Vec<(String, Option<i32>)> = g.get_all_nodes().iter().map(|n| (n.name.clone(), n.attributes)).collect();
                n == m.nodes && sorted_edge_keys(specs.directed, g.get_all_edges()) == m.edge_keys()
            });
            if !ok {
                let class = if predicted.iter().any(|(o, _)| o.is_none()) { "wrong-graph" } else { "ok-instead-of-error" };
                ctx::violation(&format!("{}|new_from_nodes_and_edges|{}|{}", prop, class, kind), "constructor result differs from add_nodes + add_edges semantics", json!({"input": detail(), "graph_edges": sorted_edge_keys(specs.directed, g.get_all_edges()), "acceptable": predicted.iter().map(|(o, m)| json!({"outcome": format!("{:?}", o), "model": m.json()})).collect::<Vec<_>>()}));
            }
        }
        Ok(Err(e)) => {
            let got = outcome_of(&Err(e.clone())).ok();
            let ok = got.is_some() && predicted.iter().any(|(o, _)| *o == got);
            if !ok {
                ctx::violation(&format!("{}|new_from_nodes_and_edges|wrong-outcome|{}", prop, kind), "constructor failed although no edge fails under the specs (or with the wrong error kind)", json!({"input": detail(), "got": err_name(&e.kind), "acceptable": predicted.iter().map(|(o, _)| format!("{:?}", o)).collect::<Vec<_>>()}));
            }
        }
    }
}

// ============================================================================ C02

pub fn run_c02(a: &Args) {
    let specs_all = Specs::all();
    let per_spec: u64 = if a.thorough { 4000 } else { 80 };
    let maxlen = if a.thorough { 30 } else { 16 };
    let mon = Monitors { prop: "C02", mutation_semantics: false, queries: true, traversal: false, counts: false, every_op: false };
    let total = specs_all.len() as u64 * per_spec;
    for idx in 0..total {
        if !ctx::mine(idx) {
            continue;
        }
        let specs = specs_all[(idx / per_spec) as usize];
        let mut rng = Rng::new(mix(a.seed ^ 0xC02, idx));
        let wmode = pick_wmode(&mut rng, true);
        let len = rng.range(2, maxlen);
        let (names, mut ops) = gen_history(&mut rng, len, wmode, true);
        if specs.multi && rng.chance(1, 2) {
            // force a pair with three or more parallel edges, in both orientations
            let u = names[0].clone();
            let v = names[names.len() - 1].clone();
            for k in 0..3 {
                let (x, y) = if k % 2 == 0 { (&u, &v) } else { (&v, &u) };
                ops.push(Op::AddEdge(MEdge::new(x, y, draw_weight(wmode, &mut rng), Some(k))));
            }
        }
        if specs.multi && idx % 8 == 3 && names.len() >= 3 {
            // a node whose edge list is longer than 20: twelve distinguishable parallel edges to
            // each of two neighbours, interleaved
            let hub = names[0].clone();
            for k in 0..24 {
                let other = names[1 + (k % 2)].clone();
                let (x, y) = if k % 3 == 0 { (&other, &hub) } else { (&hub, &other) };
                ops.push(Op::AddEdge(MEdge::new(x, y, draw_weight(wmode, &mut rng), Some(100 + k as i32))));
            }
        }
        if idx % 5 == 4 {
            // a larger graph: 24-40 filler nodes around the small query universe
            let fillers: Vec<(String, Option<i32>)> = (0..rng.range(24, 40)).map(|i| (format!("n{:02}", i), None)).collect();
            let mut with_edges = vec![Op::AddNodes(fillers.clone())];
            for k in 0..rng.range(3, 10) {
                let u = fillers[rng.below(fillers.len())].0.clone();
                let v = if rng.coin() { names[rng.below(names.len())].clone() } else { fillers[rng.below(fillers.len())].0.clone() };
                with_edges.push(Op::AddEdge(MEdge::new(&u, &v, draw_weight(wmode, &mut rng), Some(k as i32))));
            }
            let at = rng.below(ops.len() + 1);
            for (k, op) in with_edges.into_iter().enumerate() {
                ops.insert((at + k).min(ops.len()), op);
            }
            ctx::count("reach:graph-with-more-than-16-nodes");
        }
        ctx::case_desc(history_desc(&specs, &ops));
        let lock = run_history(specs, &names, &ops, &mon);
        let nontrivial = lock.g.number_of_nodes() >= 2 && lock.g.get_all_edges().len() >= 1;
        if nontrivial {
            ctx::nontrivial(history_hash(&specs, &ops));
            if ops.len() <= 8 {
                ctx::sample_tagged(&specs.kind_label(), || history_desc(&specs, &ops));
            }
        }
    }
}

// ============================================================================ C03

fn weighted_boundary_checks(g: &G, prop: &'static str, weighted: bool, centralities: bool) {
    let d = Dense::from_graph(g);
    if d.n == 0 {
        return;
    }
    let kind = kind_class(g);
    let mode = if weighted { "weighted" } else { "hops" };
    for s in 0..d.n {
        let want = oracle::sssp(&d, s, weighted);
        let src = d.names[s].clone();
        let res = guard("dijkstra::single_source", || dijkstra::single_source(g, weighted, src.clone(), None, None, false, false));
        ctx::eval(1);
        match res {
            Err(c) => ctx::violation(&format!("{}|single_source|{}|{}", prop, c.class(), kind), "single_source panicked", json!({"caught": c.json(), "source": src})),
            Ok(Err(e)) => ctx::violation(&format!("{}|single_source|error:{}|{}", prop, err_name(&e.kind), kind), "single_source failed on a uniformly weighted graph", json!({"source": src, "mode": mode})),
            Ok(Ok(map)) => {
                for t in 0..d.n {
                    let got = map.get(&d.names[t]).map(|i| i.distance);
                    let w = want[t];
                    let ok = match got {
                        None => w == INF,
                        Some(x) => w != INF && x == w,
                    };
                    if !ok {
                        ctx::violation(
                            &format!("{}|single_source|distance-differs-from-stored-edges|{}", prop, kind),
                            "distance differs from the one computed from get_all_edges() alone",
                            json!({"source": src, "target": d.names[t], "got": got, "want_from_get_all_edges": if w == INF { Value::Null } else { json!(w) }, "mode": mode,
                                   "edges": g.get_all_edges().iter().map(|e| json!([e.u, e.v, e.weight])).collect::<Vec<_>>()}),
                        );
                        return;
                    }
                }
            }
        }
    }
    // a cut-off search from every source: exactly the entries within the cut-off, at the same
    // distances (neighbour lists that were rewritten by duplicates must still be walked in full)
    for s in 0..d.n {
        let want = oracle::sssp(&d, s, weighted);
        let mut finite: Vec<f64> = want.iter().copied().filter(|x| *x != INF).collect();
        finite.sort_by(|a, b| a.partial_cmp(b).unwrap());
        let src = d.names[s].clone();
        for cut in [finite[finite.len() / 2], finite[finite.len() - 1]] {
            ctx::eval(1);
            if let Ok(Ok(map)) = guard("dijkstra::single_source", || dijkstra::single_source(g, weighted, src.clone(), None, Some(cut), false, false)) {
                for t in 0..d.n {
                    let got = map.get(&d.names[t]).map(|i| i.distance);
                    let ok = match got {
                        None => want[t] == INF || want[t] > cut,
                        Some(x) => want[t] <= cut && x == want[t],
                    };
                    if !ok {
                        ctx::violation(
                            &format!("{}|single_source(cutoff)|differs-from-stored-edges|{}", prop, kind),
                            "a cut-off search differs from the distances computed from get_all_edges() alone",
                            json!({"source": src, "target": d.names[t], "cutoff": cut, "got": got, "want_from_get_all_edges": if want[t] == INF { Value::Null } else { json!(want[t]) }, "mode": mode,
                                   "edges": g.get_all_edges().iter().map(|e| json!([e.u, e.v, e.weight])).collect::<Vec<_>>()}),
                        );
                        return;
                    }
                }
            }
        }
    }
    if centralities && !g.specs.multi_edges && d.edges.iter().all(|e| !weighted || e.2 >= 0.0) {
        // eigenvector centrality: when a vector is returned it is (nearly) unmoved by one more
        // step x -> normalise(x + A^T x) with A taken from get_all_edges() alone
        let tol = 1e-9;
        if let Ok(Ok(map)) = guard("eigenvector_centrality", || graphrs::algorithms::centrality::eigenvector::eigenvector_centrality(g, weighted, Some(2000), Some(tol))) {
            ctx::eval(1);
            let n = d.n;
            let x: Vec<f64> = (0..n).map(|i| map.get(&d.names[i]).copied().unwrap_or(f64::NAN)).collect();
            let mut y = x.clone();
            for (u, v, w) in &d.edges {
                let w = if weighted { *w } else { 1.0 };
                y[*v] += w * x[*u];
                if !d.directed && u != v {
                    y[*u] += w * x[*v];
                }
            }
            let norm = y.iter().map(|a| a * a).sum::<f64>().sqrt();
            if norm > 0.0 && x.iter().all(|a| a.is_finite()) {
                let moved: f64 = y.iter().zip(x.iter()).map(|(a, b)| (a / norm - b).abs()).sum();
                if moved > 100.0 * n as f64 * tol + 1e-9 {
                    ctx::violation(&format!("{}|eigenvector_centrality|not-a-fixed-point-of-the-stored-edges|{}", prop, kind), "the returned vector moves under one more step taken over get_all_edges() alone", json!({"moved_l1": moved, "bound": 100.0 * n as f64 * tol, "mode": mode,
                        "edges": g.get_all_edges().iter().map(|e| json!([e.u, e.v, e.weight])).collect::<Vec<_>>()}));
                }
            }
        }
    }
    if centralities {
        let wantb = oracle::betweenness(&d, weighted, false, 0.0);
        if let Ok(Ok(map)) = guard("betweenness_centrality", || betweenness::betweenness_centrality(g, weighted, false)) {
            ctx::eval(1);
            for i in 0..d.n {
                let got = map.get(&d.names[i]).copied().unwrap_or(f64::NAN);
                if !approx(got, wantb[i]) {
                    ctx::violation(&format!("{}|betweenness_centrality|differs-from-stored-edges|{}", prop, kind), "betweenness differs from the one computed from get_all_edges() alone", json!({"node": d.names[i], "got": got, "want": wantb[i], "mode": mode}));
                    break;
                }
            }
        }
        let wantc = oracle::closeness(&d, weighted, true);
        if let Ok(Ok(map)) = guard("closeness_centrality", || closeness::closeness_centrality(g, weighted, true)) {
            ctx::eval(1);
            for i in 0..d.n {
                let got = map.get(&d.names[i]).copied().unwrap_or(f64::NAN);
                if !approx(got, wantc[i]) {
                    ctx::violation(&format!("{}|closeness_centrality|differs-from-stored-edges|{}", prop, kind), "closeness differs from the one computed from get_all_edges() alone", json!({"node": d.names[i], "got": got, "want": wantc[i], "mode": mode}));
                    break;
                }
            }
        }
    }
}

pub fn run_c03(a: &Args) {
    let specs_all = Specs::all();
    let per_spec: u64 = if a.thorough { 1500 } else { 300 };
    let maxlen = if a.thorough { 30 } else { 16 };
    let mon = Monitors { prop: "C03", mutation_semantics: false, queries: false, traversal: true, counts: false, every_op: true };
    let total = specs_all.len() as u64 * per_spec;
    for idx in 0..total {
        if !ctx::mine(idx) {
            continue;
        }
        let specs = specs_all[(idx / per_spec) as usize];
        let mut rng = Rng::new(mix(a.seed ^ 0xC03, idx));
        let wmode = match rng.below(8) {
            0 | 1 => WMode::AllNaN,
            2 => WMode::Ulps,
            _ => WMode::AllReal,
        };
        let len = rng.range(2, maxlen);
        let (names, mut ops) = gen_history(&mut rng, len, wmode, wmode == WMode::AllNaN);
        if idx % 7 == 6 && wmode != WMode::AllNaN {
            // a hub with 60..70 neighbours, then duplicates (smaller / larger weight, both
            // orientations) towards old and recent neighbours
            let hub = names[0].clone();
            let deg = rng.range(60, 70);
            let fillers: Vec<String> = (0..deg).map(|i| format!("h{:02}", i)).collect();
            let mut pre = vec![Op::AddNodes(std::iter::once((hub.clone(), None)).chain(fillers.iter().map(|f| (f.clone(), None))).collect())];
            for f in &fillers {
                let (x, y) = if rng.coin() { (&hub, f) } else { (f, &hub) };
                pre.push(Op::AddEdge(MEdge::new(x, y, draw_weight(wmode, &mut rng), None)));
            }
            for _ in 0..rng.range(2, 6) {
                let f = &fillers[if rng.coin() { rng.below(deg) } else { deg - 1 - rng.below(8) }];
                let (x, y) = if rng.coin() { (&hub, f) } else { (f, &hub) };
                pre.push(Op::AddEdge(MEdge::new(x, y, draw_weight(wmode, &mut rng), None)));
            }
            pre.extend(ops);
            ops = pre;
            ctx::count("reach:hub-with-60-or-more-neighbours");
        }
        // forced "second edge, smaller weight" / "larger weight" steps, both orientations
        if wmode == WMode::AllReal && names.len() >= 2 {
            let u = names[0].clone();
            let v = names[1].clone();
            let w0 = rng.range(4, 12) as f64 / 4.0;
            let seq: Vec<f64> = match rng.below(4) {
                0 => vec![w0, w0 - 0.5],
                1 => vec![w0, w0 + 0.75],
                2 => vec![w0, w0 - 0.75, w0 - 0.25],
                _ => vec![w0, w0 + 0.5, w0 - 0.5],
            };
            let at = rng.below(ops.len() + 1);
            for (k, w) in seq.iter().enumerate() {
                let (x, y) = if k % 2 == 1 && rng.coin() { (&v, &u) } else { (&u, &v) };
                ops.insert((at + k).min(ops.len()), Op::AddEdge(MEdge::new(x, y, *w, None)));
            }
        }
        ctx::case_desc(history_desc(&specs, &ops));
        let lock = run_history(specs, &names, &ops, &mon);
        let weighted = wmode != WMode::AllNaN && lock.g.edges_have_weight() && !lock.g.get_all_edges().is_empty();
        weighted_boundary_checks(&lock.g, "C03", weighted, idx % 3 == 0 && wmode != WMode::Ulps && lock.g.number_of_nodes() <= 40);
        if lock.tags.iter().any(|t| t.contains("second-edge")) {
            ctx::nontrivial(history_hash(&specs, &ops));
            if ops.len() <= 8 {
                ctx::sample_tagged(&specs.kind_label(), || history_desc(&specs, &ops));
            }
        }
    }
}

// ============================================================================ C09

pub fn check_counts(g: &G, m: &Model, prop: &'static str, exact_weights: bool) -> u64 {
    let kind = kind_class(g);
    let d = m.specs.directed;
    let n = m.nodes.len();
    let me = m.edges.len();
    let mut evals = 0u64;
    let mut fail = |func: &str, class: &str, detail: Value| {
        ctx::violation(&format!("{}|{}|{}|{}", prop, func, class, kind), &format!("{}: {}", func, class), json!({"detail": detail, "model": m.json()}));
    };
    macro_rules! call {
        ($name:expr, $e:expr) => {{
            evals += 1;
            match guard($name, || $e) {
                Ok(v) => Some(v),
                Err(c) => {
                    fail($name, &c.class(), c.json());
                    None
                }
            }
        }};
    }
    if let Some(x) = call!("number_of_nodes", g.number_of_nodes()) {
        if x != n {
            fail("number_of_nodes", "wrong-count", json!({"got": x, "want": n}));
        }
    }
    if let Some(x) = call!("number_of_edges", g.number_of_edges()) {
        if x != me {
            fail("number_of_edges", "wrong-count", json!({"got": x, "want": me}));
        }
    }
    if let Some(x) = call!("size", g.size(false)) {
        if x != me as f64 {
            fail("size(false)", "wrong-count", json!({"got": x, "want": me}));
        }
    }
    let all_weighted = m.edges.iter().all(|e| !e.w.is_nan());
    if exact_weights && all_weighted {
        let want: f64 = m.edges.iter().map(|e| e.w).sum();
        if let Some(x) = call!("size", g.size(true)) {
            if x != want {
                fail("size(true)", "wrong-weight-sum", json!({"got": x, "want": want}));
            }
        }
    }
    // degrees
    let mut sum_deg = 0usize;
    let mut sum_in = 0usize;
    let mut sum_out = 0usize;
    let mut wsum_deg = 0.0;
    let all_deg = call!("get_degree_for_all_nodes", g.get_degree_for_all_nodes());
    let all_in = call!("get_in_degree_for_all_nodes", g.get_in_degree_for_all_nodes().map_err(|e| e.kind));
    let all_out = call!("get_out_degree_for_all_nodes", g.get_out_degree_for_all_nodes().map_err(|e| e.kind));
    let all_wdeg = call!("get_weighted_degree_for_all_nodes", g.get_weighted_degree_for_all_nodes());
    let all_win = call!("get_weighted_in_degree_for_all_nodes", g.get_weighted_in_degree_for_all_nodes().map_err(|e| e.kind));
    let all_wout = call!("get_weighted_out_degree_for_all_nodes", g.get_weighted_out_degree_for_all_nodes().map_err(|e| e.kind));
    if !d {
        for (name, r) in [("get_in_degree_for_all_nodes", &all_in), ("get_out_degree_for_all_nodes", &all_out)] {
            if let Some(r) = r {
                if !matches!(r, Err(ErrorKind::WrongMethod)) {
                    fail(name, "not-WrongMethod-on-undirected", json!(null));
                }
            }
        }
        for (name, r) in [("get_weighted_in_degree_for_all_nodes", &all_win), ("get_weighted_out_degree_for_all_nodes", &all_wout)] {
            if let Some(r) = r {
                if !matches!(r, Err(ErrorKind::WrongMethod)) {
                    fail(name, "not-WrongMethod-on-undirected", json!(null));
                }
            }
        }
    }
    let dc = if n >= 2 { call!("degree_centrality", degree::degree_centrality(g)) } else { None };
    for (name, _) in &m.nodes {
        let want_deg = m.degree(name);
        let want_in = m.in_degree(name);
        let want_out = m.out_degree(name);
        let deg = call!("get_node_degree", g.get_node_degree(name.clone())).flatten();
        match deg {
            Some(x) => {
                sum_deg += x;
                if x != want_deg {
                    fail("get_node_degree", "differs-from-incident-edge-ends", json!({"node": name, "got": x, "want": want_deg}));
                }
                if let Some(Some(all)) = all_deg.as_ref().map(|h| h.get(name)) {
                    if *all != x {
                        fail("get_degree_for_all_nodes", "differs-from-per-node-function", json!({"node": name, "all": all, "single": x}));
                    }
                } else if all_deg.is_some() {
                    fail("get_degree_for_all_nodes", "missing-node", json!({"node": name}));
                }
                if let Some(dc) = &dc {
                    let want = x as f64 / (n as f64 - 1.0);
                    let got = dc.get(name).copied().unwrap_or(f64::NAN);
                    if !approx(got, want) {
                        fail("degree_centrality", "not-degree-over-n-minus-1", json!({"node": name, "got": got, "want": want}));
                    }
                }
            }
            None => fail("get_node_degree", "none-for-existing-node", json!({"node": name})),
        }
        let ind = call!("get_node_in_degree", g.get_node_in_degree(name.clone())).flatten();
        let outd = call!("get_node_out_degree", g.get_node_out_degree(name.clone())).flatten();
        if d {
            match (ind, outd, deg) {
                (Some(i), Some(o), Some(t)) => {
                    sum_in += i;
                    sum_out += o;
                    if i != want_in || o != want_out {
                        fail("get_node_in/out_degree", "differs-from-edge-multiset", json!({"node": name, "in": i, "out": o, "want_in": want_in, "want_out": want_out}));
                    }
                    if t != i + o {
                        fail("get_node_degree", "degree-not-in-plus-out", json!({"node": name, "degree": t, "in": i, "out": o}));
                    }
                    if let Some(Ok(h)) = &all_in {
                        if h.get(name) != Some(&i) {
                            fail("get_in_degree_for_all_nodes", "differs-from-per-node-function", json!({"node": name}));
                        }
                    }
                    if let Some(Ok(h)) = &all_out {
                        if h.get(name) != Some(&o) {
                            fail("get_out_degree_for_all_nodes", "differs-from-per-node-function", json!({"node": name}));
                        }
                    }
                }
                _ => fail("get_node_in/out_degree", "none-for-existing-node-on-directed", json!({"node": name})),
            }
        } else if ind.is_some() || outd.is_some() {
            fail("get_node_in/out_degree", "value-on-undirected-graph", json!({"node": name}));
        }
        // weighted variants (only when every weight is a small exact number)
        if exact_weights && all_weighted {
            let want_w: f64 = m.edges.iter().map(|e| (if &e.u == name { e.w } else { 0.0 }) + (if &e.v == name { e.w } else { 0.0 })).sum();
            let want_wi: f64 = m.edges.iter().filter(|e| &e.v == name).map(|e| e.w).sum();
            let want_wo: f64 = m.edges.iter().filter(|e| &e.u == name).map(|e| e.w).sum();
            if let Some(Some(x)) = call!("get_node_weighted_degree", g.get_node_weighted_degree(name.clone())) {
                wsum_deg += x;
                if x != want_w {
                    fail("get_node_weighted_degree", "differs-from-incident-weights", json!({"node": name, "got": x, "want": want_w}));
                }
                if let Some(h) = &all_wdeg {
                    if h.get(name) != Some(&x) {
                        fail("get_weighted_degree_for_all_nodes", "differs-from-per-node-function", json!({"node": name}));
                    }
                }
            }
            if d {
                let wi = call!("get_node_weighted_in_degree", g.get_node_weighted_in_degree(name.clone())).flatten();
                let wo = call!("get_node_weighted_out_degree", g.get_node_weighted_out_degree(name.clone())).flatten();
                match (wi, wo) {
                    (Some(i), Some(o)) => {
                        if i != want_wi || o != want_wo {
                            fail("get_node_weighted_in/out_degree", "differs-from-edge-weights", json!({"node": name, "in": i, "out": o, "want_in": want_wi, "want_out": want_wo}));
                        }
                        if let Some(Ok(h)) = &all_win {
                            if h.get(name) != Some(&i) {
                                fail("get_weighted_in_degree_for_all_nodes", "differs-from-per-node-function", json!({"node": name}));
                            }
                        }
                        if let Some(Ok(h)) = &all_wout {
                            if h.get(name) != Some(&o) {
                                fail("get_weighted_out_degree_for_all_nodes", "differs-from-per-node-function", json!({"node": name}));
                            }
                        }
                    }
                    _ => fail("get_node_weighted_in/out_degree", "none-for-existing-node-on-directed", json!({"node": name})),
                }
            }
        }
    }
    // handshake identities on what the API itself reports
    if sum_deg != 2 * me {
        fail("get_node_degree", "handshake:sum-of-degrees-not-2m", json!({"sum": sum_deg, "m": me}));
    }
    if d && (sum_in != me || sum_out != me) {
        fail("get_node_in/out_degree", "handshake:in-or-out-sum-not-m", json!({"sum_in": sum_in, "sum_out": sum_out, "m": me}));
    }
    if exact_weights && all_weighted {
        let tot: f64 = m.edges.iter().map(|e| e.w).sum();
        if wsum_deg != 2.0 * tot {
            fail("get_node_weighted_degree", "handshake:sum-of-weighted-degrees-not-2-size", json!({"sum": wsum_deg, "size": tot}));
        }
    }
    if m.edges.iter().any(|e| e.is_loop()) && d {
        ctx::count("reach:directed-graph-with-self-loop");
    }
    if m.nodes.iter().any(|(x, _)| m.edges.iter().filter(|e| e.is_loop() && &e.u == x).count() >= 2) {
        ctx::count("reach:node-with-parallel-self-loops");
    }
    if m.specs.multi && me > m.edges.iter().map(|e| if !d && e.u > e.v { (e.v.clone(), e.u.clone()) } else { (e.u.clone(), e.v.clone()) }).collect::<BTreeSet<_>>().len() {
        ctx::count("reach:multigraph-with-parallel-edges");
    }
    // density of single-edge graphs
    if !m.specs.multi && n >= 2 {
        let nf = n as f64;
        let want = if d { me as f64 / (nf * (nf - 1.0)) } else { 2.0 * me as f64 / (nf * (nf - 1.0)) };
        if let Some(x) = call!("get_density", g.get_density()) {
            if !approx(x, want) {
                fail("get_density", "not-m-over-n-n-minus-1", json!({"got": x, "want": want}));
            }
        }
    }
    // adjacency matrix
    let mat = call!("get_sparse_adjacency_matrix", g.get_sparse_adjacency_matrix().map_err(|e| e.kind));
    match mat {
        Some(Err(k)) => {
            if !(m.specs.multi && matches!(k, ErrorKind::WrongMethod)) {
                fail("get_sparse_adjacency_matrix", &format!("error:{}", err_name(&k)), json!(null));
            }
        }
        Some(Ok(mx)) => {
            if m.specs.multi {
                fail("get_sparse_adjacency_matrix", "not-WrongMethod-on-multi-edge-graph", json!(null));
            } else {
                if mx.rows() != n || mx.cols() != n {
                    fail("get_sparse_adjacency_matrix", "wrong-shape", json!({"rows": mx.rows(), "cols": mx.cols(), "n": n}));
                } else {
                    let mut arcs = 0usize;
                    let mut any_zero = false;
                    'outer: for i in 0..n {
                        for j in 0..n {
                            let es = m.edges_between(&m.nodes[i].0, &m.nodes[j].0);
                            let want = match es.first() {
                                None => 0.0,
                                Some(e) => {
                                    arcs += 1;
                                    if e.w.is_nan() { 1.0 } else { e.w }
                                }
                            };
                            if want == 0.0 && !es.is_empty() {
                                any_zero = true;
                            }
                            let got = mx.get(i, j).copied();
                            let gotv = got.unwrap_or(0.0);
                            let same = gotv == want || (gotv.is_nan() && want.is_nan());
                            if !same {
                                fail("get_sparse_adjacency_matrix", "wrong-entry", json!({"i": i, "j": j, "row": m.nodes[i].0, "col": m.nodes[j].0, "got": format!("{:?}", got), "want": want}));
                                break 'outer;
                            }
                            if es.is_empty() && got.is_some() && got != Some(0.0) {
                                fail("get_sparse_adjacency_matrix", "entry-without-edge", json!({"i": i, "j": j}));
                                break 'outer;
                            }
                            if !d {
                                let back = mx.get(j, i).copied().unwrap_or(0.0);
                                if back != gotv && !(back.is_nan() && gotv.is_nan()) {
                                    fail("get_sparse_adjacency_matrix", "not-symmetric", json!({"i": i, "j": j}));
                                    break 'outer;
                                }
                            }
                        }
                    }
                    if !any_zero && mx.nnz() != arcs {
                        fail("get_sparse_adjacency_matrix", "nonzero-pattern-differs-from-edges", json!({"nnz": mx.nnz(), "arcs": arcs}));
                    }
                    if !d {
                        let pos: std::collections::BTreeMap<&String, usize> = m.nodes.iter().enumerate().map(|(i, x)| (&x.0, i)).collect();
                        if m.edges.iter().any(|e| e.u != e.v && ((e.u < e.v) != (pos[&e.u] < pos[&e.v]))) {
                            ctx::count("reach:matrix-undirected-name-order-differs-from-position-order");
                        }
                    }
                }
            }
        }
        None => {}
    }
    evals
}

pub fn run_c09(a: &Args) {
    let specs_all = Specs::all();
    let per_spec: u64 = if a.thorough { 1500 } else { 300 };
    let maxlen = if a.thorough { 30 } else { 16 };
    let mon = Monitors { prop: "C09", mutation_semantics: false, queries: false, traversal: false, counts: true, every_op: false };
    let total = specs_all.len() as u64 * per_spec;
    for idx in 0..total {
        if !ctx::mine(idx) {
            continue;
        }
        let specs = specs_all[(idx / per_spec) as usize];
        let mut rng = Rng::new(mix(a.seed ^ 0xC09, idx));
        let wmode = pick_wmode(&mut rng, true);
        let len = rng.range(2, maxlen);
        let (names, mut ops) = gen_history(&mut rng, len, wmode, true);
        // forced self-loop and (on multi graphs) a parallel edge
        if rng.coin() {
            let u = names[0].clone();
            ops.push(Op::AddEdge(MEdge::new(&u, &u, draw_weight(wmode, &mut rng), None)));
            if rng.coin() {
                // a second (parallel) self-loop on the same node
                ops.push(Op::AddEdge(MEdge::new(&u, &u, draw_weight(wmode, &mut rng), None)));
            }
            let v = names[names.len() - 1].clone();
            ops.push(Op::AddEdge(MEdge::new(&v, &u, draw_weight(wmode, &mut rng), None)));
            ops.push(Op::AddEdge(MEdge::new(&u, &v, draw_weight(wmode, &mut rng), None)));
        }
        if idx % 960 == 959 {
            // bulk shape: a hub with 129..140 incident edges, more than 1000 connected pairs,
            // 129+ parallel edges on one pair when the graph is a multigraph
            let nf = 48;
            let fillers: Vec<String> = (0..nf).map(|i| format!("n{:02}", i)).collect();
            let mut bulk = vec![];
            let hub = names[0].clone();
            for i in 0..rng.range(129, 140) {
                let f = &fillers[i % nf];
                let (x, y) = if rng.coin() { (&hub, f) } else { (f, &hub) };
                bulk.push(MEdge::new(x, y, draw_weight(wmode, &mut rng), None));
            }
            for a in 0..nf {
                for b in 0..nf {
                    if a != b && (specs.directed || a < b) && rng.chance(if specs.directed { 1 } else { 2 }, 2) {
                        bulk.push(MEdge::new(&fillers[a], &fillers[b], draw_weight(wmode, &mut rng), None));
                    }
                }
            }
            if specs.multi {
                for _ in 0..rng.range(129, 135) {
                    bulk.push(MEdge::new(&fillers[0], &fillers[1], draw_weight(wmode, &mut rng), None));
                }
            }
            rng.shuffle(&mut bulk);
            ops.insert(0, Op::AddNodes(fillers.iter().map(|f| (f.clone(), None)).chain(std::iter::once((hub.clone(), None))).collect()));
            // one edge per op: a batch would stop at the first rejected duplicate
            for (k, e) in bulk.into_iter().enumerate() {
                ops.insert(1 + k, Op::AddEdge(e));
            }
            ctx::count("reach:bulk-graph-with-more-than-1000-pairs");
        }
        ctx::case_desc(if ops.len() > 60 { json!({"specs": specs.label(), "history": "bulk case (regenerate with --only-case)"}) } else { history_desc(&specs, &ops) });
        let mut lock = run_history(specs, &names, &ops, &mon);
        if lock.cands.is_empty() {
            lock.cands = vec![model_from_graph(&lock.g)];
        }
        let m = lock.cands[0].clone();
        let e = check_counts(&lock.g, &m, "C09", wmode != WMode::Wild);
        ctx::eval(e);
        // the same identities on a derived copy (every weight reset) that then receives duplicates
        // of its own edges, in both orientations
        if !m.edges.is_empty() && idx % 2 == 0 && m.nodes.len() <= 12 {
            let dg = lock.g.set_all_edge_weights(2.0);
            let dm = model_from_graph(&dg);
            let mut dl = Lock { g: dg, cands: vec![dm], order_known: false, names: lock.names.clone(), tags: BTreeSet::new(), arcs: std::collections::HashMap::new() };
            for (i, e) in m.edges.iter().take(3).enumerate() {
                let (u, v) = if i % 2 == 1 { (&e.v, &e.u) } else { (&e.u, &e.v) };
                let op = Op::AddEdge(MEdge::new(u, v, 3.0, None));
                if !step(&mut dl, &op, &mon, i) {
                    break;
                }
            }
            if dl.cands.is_empty() {
                dl.cands = vec![model_from_graph(&dl.g)];
            }
            let dm2 = dl.cands[0].clone();
            ctx::eval(check_counts(&dl.g, &dm2, "C09", true));
            ctx::count("reach:counts-on-derived-copy-after-duplicates");
        }
        if !m.edges.is_empty() {
            ctx::nontrivial(history_hash(&specs, &ops));
            if ops.len() <= 8 {
                ctx::sample_tagged(&specs.kind_label(), || history_desc(&specs, &ops));
            }
        }
    }
    // graphs of several thousand nodes, counted inside pools of 1, 2 and 4 threads
    for k in 0..(if a.thorough { 8 } else { 2 }) {
        if ctx::mine(total + k) {
            c09_huge(a, k);
        }
    }
}

/// Degree tables of a 4200..9000-node graph (a wheel plus random edges, integer weights) against
/// plain counting over the edge list, with the calls made inside caller-installed pools.
fn c09_huge(a: &Args, k: u64) {
    let mut rng = Rng::new(mix(a.seed ^ 0xC09_4096, k));
    let directed = k % 2 == 0;
    let multi = (k / 2) % 2 == 1;
    let specs = Specs::kind(directed, multi, false);
    let n = rng.range(4200, if a.thorough { 9000 } else { 6500 });
    let names: Vec<String> = (0..n).map(|i| format!("v{:05}", i)).collect();
    let mut pairs: Vec<(usize, usize, f64)> = vec![];
    for i in 1..n {
        let w = rng.range(1, 9) as f64;
        if rng.coin() { pairs.push((0, i, w)) } else { pairs.push((i, 0, w)) }
        pairs.push((i, if i + 1 < n { i + 1 } else { 1 }, rng.range(1, 9) as f64));
    }
    for _ in 0..2 * n {
        let u = rng.below(n);
        let v = rng.below(n);
        if u != v {
            pairs.push((u, v, rng.range(1, 9) as f64));
        }
    }
    rng.shuffle(&mut pairs);
    ctx::case_desc(json!({"shape": "wheel plus random edges", "n": n, "kind": specs.kind_label(), "seed_index": k}));
    let mut g: G = Graph::new(specs.to_real());
    for nm in &names {
        g.add_node(graphrs::Node::from_name(nm.clone()));
    }
    for (u, v, w) in &pairs {
        g.add_edge(std::sync::Arc::new(graphrs::Edge { u: names[*u].clone(), v: names[*v].clone(), attributes: None, weight: *w })).expect("permissive specs");
    }
    // expected tables from the graph's own edge list
    let pos: std::collections::HashMap<&str, usize> = names.iter().enumerate().map(|(i, s)| (s.as_str(), i)).collect();
    let (mut din, mut dout, mut win, mut wout) = (vec![0usize; n], vec![0usize; n], vec![0.0f64; n], vec![0.0f64; n]);
    let edges = g.get_all_edges();
    for e in &edges {
        let (u, v) = (pos[e.u.as_str()], pos[e.v.as_str()]);
        dout[u] += 1;
        wout[u] += e.weight;
        din[v] += 1;
        win[v] += e.weight;
    }
    let me = edges.len();
    let kind = kind_class(&g);
    let fail = |func: &str, class: &str, detail: Value| {
        ctx::violation(&format!("C09|{}|{}|{}", func, class, kind), &format!("{}: {}", func, class), json!({"detail": detail, "n": n, "edges": me}));
    };
    for threads in [1usize, 2, 4] {
        let pool = rayon::ThreadPoolBuilder::new().num_threads(threads).build().expect("pool");
        ctx::count(&format!("reach:more-than-4096-nodes:pool-of-{}", threads));
        let r = guard("degree tables", || {
            pool.install(|| {
                (
                    g.get_degree_for_all_nodes(),
                    g.get_in_degree_for_all_nodes().ok(),
                    g.get_out_degree_for_all_nodes().ok(),
                    g.get_weighted_degree_for_all_nodes(),
                    g.get_weighted_in_degree_for_all_nodes().ok(),
                    g.get_weighted_out_degree_for_all_nodes().ok(),
                    if n >= 2 { Some(degree::degree_centrality(&g)) } else { None },
                    g.number_of_edges(),
                    g.size(true),
                    g.number_of_nodes(),
                )
            })
        });
        let (deg, ind, outd, wdeg, wind, woutd, dc, ne, sz, nn) = match r {
            Ok(x) => x,
            Err(c) => {
                fail("degree tables", &c.class(), c.json());
                continue;
            }
        };
        ctx::eval(10);
        if ne != me || nn != n {
            fail("number_of_edges", "wrong-count", json!({"got": [nn, ne], "want": [n, me], "threads": threads}));
        }
        let wsum: f64 = edges.iter().map(|e| e.weight).sum();
        if sz != wsum {
            fail("size(true)", "not-the-weight-sum", json!({"got": sz, "want": wsum, "threads": threads}));
        }
        let mut dsum = 0usize;
        for (i, nm) in names.iter().enumerate() {
            let want = din[i] + dout[i];
            let got = deg.get(nm).copied();
            dsum += got.unwrap_or(0);
            if got != Some(want) {
                fail("get_degree_for_all_nodes", "differs-from-incident-edge-ends", json!({"node": nm, "got": got, "want": want, "threads": threads}));
                break;
            }
            let gw = wdeg.get(nm).copied();
            if gw != Some(win[i] + wout[i]) {
                fail("get_weighted_degree_for_all_nodes", "differs-from-incident-weights", json!({"node": nm, "got": gw, "want": win[i] + wout[i], "threads": threads}));
                break;
            }
            if directed {
                let gi = ind.as_ref().and_then(|t| t.get(nm).copied());
                let go = outd.as_ref().and_then(|t| t.get(nm).copied());
                if gi != Some(din[i]) || go != Some(dout[i]) {
                    fail("get_in_degree_for_all_nodes", "differs-from-edge-ends", json!({"node": nm, "got": [gi, go], "want": [din[i], dout[i]], "threads": threads}));
                    break;
                }
                let gwi = wind.as_ref().and_then(|t| t.get(nm).copied());
                let gwo = woutd.as_ref().and_then(|t| t.get(nm).copied());
                if gwi != Some(win[i]) || gwo != Some(wout[i]) {
                    fail("get_weighted_in_degree_for_all_nodes", "differs-from-edge-weights", json!({"node": nm, "got": [gwi, gwo], "want": [win[i], wout[i]], "threads": threads}));
                    break;
                }
            }
            if let Some(dc) = &dc {
                let gc = dc.get(nm).copied().unwrap_or(f64::NAN);
                if !approx(gc, want as f64 / (n as f64 - 1.0)) {
                    fail("degree_centrality", "not-degree-over-n-minus-1", json!({"node": nm, "got": gc, "want": want as f64 / (n as f64 - 1.0), "threads": threads}));
                    break;
                }
            }
        }
        if dsum != 2 * me || deg.len() != n {
            fail("get_degree_for_all_nodes", "degree-sum-not-2m", json!({"sum": dsum, "m": me, "entries": deg.len(), "threads": threads}));
        }
        // per-node queries for the hub and a sample
        let r = guard("get_node_degree", || {
            pool.install(|| (0..60).map(|j| { let i = if j == 0 { 0 } else { (j * 7919) % n }; (i, g.get_node_degree(names[i].clone()), g.get_node_in_degree(names[i].clone()), g.get_node_out_degree(names[i].clone())) }).collect::<Vec<_>>())
        });
        match r {
            Ok(rows) => {
                for (i, d0, di, do_) in rows {
                    if d0 != Some(din[i] + dout[i]) || (directed && (di != Some(din[i]) || do_ != Some(dout[i]))) {
                        fail("get_node_degree", "differs-from-incident-edge-ends", json!({"node": names[i], "got": [d0, di, do_], "want": [din[i] + dout[i], din[i], dout[i]], "threads": threads}));
                        break;
                    }
                }
                ctx::eval(60);
            }
            Err(c) => fail("get_node_degree", &c.class(), c.json()),
        }
    }
    ctx::nontrivial(fnv(format!("huge-{}-{}", n, k).as_bytes()));
}

// ============================================================================ C15

fn state_eq(g: &G, nodes: &[(String, Option<i32>)], mut edge_keys: Vec<String>) -> bool {
    let n: Vec<(String, Option<i32>)> = g.get_all_nodes().iter().map(|n| (n.name.clone(), n.attributes)).collect();
    edge_keys.sort();
    n == nodes && sorted_edge_keys(g.specs.directed, g.get_all_edges()) == edge_keys
}

fn specs_eq(a: &graphrs::GraphSpecs, b: &graphrs::GraphSpecs) -> bool {
    Specs::from_real(a) == Specs::from_real(b)
}

/// After a derived graph was produced: it must itself satisfy C01-C03 — its private indexes
/// are checked and it receives a few more mutations under the C01 monitor.
fn adopt_and_mutate(g: G, names: &[String], rng: &mut Rng, func: &'static str) {
    let m = model_from_graph(&g);
    let mon = Monitors { prop: "C15", mutation_semantics: true, queries: true, traversal: true, counts: false, every_op: true };
    let mut all_names = names.to_vec();
    all_names.push(ABSENT.to_string());
    let mut lock = Lock { g, cands: vec![m], order_known: false, names: all_names, tags: BTreeSet::new(), arcs: std::collections::HashMap::new() };
    quiescent_checks(&mut lock, &mon);
    let wm = if lock.cands[0].edges.iter().all(|e| e.w.is_nan()) { WMode::AllNaN } else { WMode::AllReal };
    let (_, ops) = gen_history(rng, 5, wm, wm == WMode::AllNaN);
    // restrict the follow-up ops to the names of this universe
    let mut uni_ops = vec![];
    for op in ops {
        let remap = |s: &String, rng: &mut Rng| -> String { if names.contains(s) { s.clone() } else { rng.pick(names).clone() } };
        uni_ops.push(match op {
            Op::AddEdge(e) => Op::AddEdge(MEdge { u: remap(&e.u, rng), v: remap(&e.v, rng), ..e }),
            Op::AddNode(n, at) => Op::AddNode(remap(&n, rng), at),
            other => other,
        });
    }
    for (i, op) in uni_ops.iter().enumerate() {
        if !matches!(op, Op::AddEdge(_) | Op::AddNode(..)) {
            continue;
        }
        if !step(&mut lock, op, &mon, i) {
            break;
        }
        quiescent_checks(&mut lock, &mon);
    }
    ctx::count(&format!("adopted-and-mutated:{}", func));
}

fn derived_checks(lock: &Lock, names: &[String], rng: &mut Rng, thorough: bool) {
    let g = &lock.g;
    let m = lock.cands[0].clone();
    let d = m.specs.directed;
    let kind = kind_class(g);
    let mut all_names = names.to_vec();
    all_names.push(ABSENT.to_string());
    let before = observation_vector(g, &all_names);
    let fail = |func: &str, class: &str, detail: Value| {
        ctx::violation(&format!("C15|{}|{}|{}", func, class, kind), &format!("{}: {}", func, class), json!({"detail": detail, "source_model": m.json()}));
    };
    // ---- get_subgraph over subsets of the universe plus the absent name
    let nn = all_names.len();
    let max_sub = if thorough { 4 } else { 3 };
    let mut masks: Vec<u32> = (0u32..(1 << nn)).filter(|x| x.count_ones() as usize <= max_sub).collect();
    masks.push((1 << nn) - 1);
    if !thorough {
        rng.shuffle(&mut masks);
        masks.truncate(24);
    }
    for mask in masks {
        let mut subset: Vec<String> = (0..nn).filter(|i| mask & (1 << i) != 0).map(|i| all_names[i].clone()).collect();
        rng.shuffle(&mut subset);
        if rng.chance(1, 6) && !subset.is_empty() {
            subset.push(subset[0].clone()); // a repeated name must not matter
        }
        let sset: BTreeSet<&String> = subset.iter().collect();
        let want_nodes: Vec<(String, Option<i32>)> = m.nodes.iter().filter(|x| sset.contains(&x.0)).cloned().collect();
        let want_edges: Vec<String> = m.edges.iter().filter(|e| sset.contains(&e.u) && sset.contains(&e.v)).map(|e| ekey(d, &e.u, &e.v, e.w, &e.attr)).collect();
        ctx::eval(1);
        match guard("get_subgraph", || g.get_subgraph(&subset)) {
            Err(c) => fail("get_subgraph", &c.class(), json!({"subset": subset, "caught": c.json()})),
            Ok(sg) => {
                if !state_eq(&sg, &want_nodes, want_edges.clone()) {
                    fail("get_subgraph", "not-the-induced-subgraph", json!({"subset": subset, "got_nodes": format!("{:?}", sg.get_all_nodes().iter().map(|n| (n.name.clone(), n.attributes)).collect::<Vec<_>>()), "got_edges": sorted_edge_keys(d, sg.get_all_edges()), "want_nodes": format!("{:?}", want_nodes), "want_edges": want_edges}));
                } else if !specs_eq(&sg.specs, &g.specs) {
                    fail("get_subgraph", "specs-changed", json!({"subset": subset}));
                } else if mask.count_ones() >= 2 && rng.chance(1, 6) {
                    adopt_and_mutate(sg, names, rng, "get_subgraph");
                } else {
                    let sm = model_from_graph(&sg);
                    ctx::eval(check_snapshot_indexes(&sg, &sm, false, "C15"));
                    ctx::eval(check_traversal_lists(&sg, &sm, "C15"));
                }
            }
        }
    }
    // ---- get_subgraph with small subsets of ALL nodes, listed in an order unlike the graph's
    if m.nodes.len() > 12 {
        for _ in 0..6 {
            let mut subset: Vec<String> = (0..rng.range(2, 4)).map(|_| m.nodes[rng.below(m.nodes.len())].0.clone()).collect();
            subset.push(ABSENT.to_string());
            subset.sort();
            subset.reverse();
            if rng.coin() {
                rng.shuffle(&mut subset);
            }
            let sset: BTreeSet<&String> = subset.iter().collect();
            let want_nodes: Vec<(String, Option<i32>)> = m.nodes.iter().filter(|x| sset.contains(&x.0)).cloned().collect();
            let want_edges: Vec<String> = m.edges.iter().filter(|e| sset.contains(&e.u) && sset.contains(&e.v)).map(|e| ekey(d, &e.u, &e.v, e.w, &e.attr)).collect();
            ctx::eval(1);
            match guard("get_subgraph", || g.get_subgraph(&subset)) {
                Err(c) => fail("get_subgraph", &c.class(), json!({"subset": subset, "caught": c.json()})),
                Ok(sg) => {
                    if !state_eq(&sg, &want_nodes, want_edges.clone()) {
                        fail("get_subgraph", "not-the-induced-subgraph", json!({"subset": subset, "got_nodes": format!("{:?}", sg.get_all_nodes().iter().map(|n| (n.name.clone(), n.attributes)).collect::<Vec<_>>()), "want_nodes": format!("{:?}", want_nodes), "got_edges": sorted_edge_keys(d, sg.get_all_edges()), "want_edges": want_edges}));
                    }
                    ctx::count("reach:small-subset-of-a-large-graph");
                }
            }
        }
    }
    // ---- reverse
    ctx::eval(1);
    match guard("reverse", || g.reverse()) {
        Err(c) => fail("reverse", &c.class(), c.json()),
        Ok(Err(e)) => {
            if d || !matches!(e.kind, ErrorKind::WrongMethod) {
                fail("reverse", &format!("error:{}", err_name(&e.kind)), json!(null));
            } else {
                ctx::count("guard:reverse-on-undirected");
            }
        }
        Ok(Ok(r)) => {
            if !d {
                fail("reverse", "not-WrongMethod-on-undirected", json!(null));
            } else {
                let want: Vec<String> = m.edges.iter().map(|e| ekey(true, &e.v, &e.u, e.w, &e.attr)).collect();
                if !state_eq(&r, &m.nodes, want.clone()) {
                    fail("reverse", "not-all-edges-flipped", json!({"got_edges": sorted_edge_keys(true, r.get_all_edges()), "want_edges": want}));
                } else {
                    match guard("reverse", || r.reverse()) {
                        Ok(Ok(rr)) => {
                            if !state_eq(&rr, &m.nodes, m.edge_keys()) {
                                fail("reverse", "reverse-twice-not-identity", json!({"got_edges": sorted_edge_keys(true, rr.get_all_edges())}));
                            }
                        }
                        Ok(Err(e)) => fail("reverse", &format!("second-reverse-error:{}", err_name(&e.kind)), json!(null)),
                        Err(c) => fail("reverse", &c.class(), c.json()),
                    }
                    if !specs_eq(&r.specs, &g.specs) {
                        fail("reverse", "specs-changed", json!(null));
                    }
                    adopt_and_mutate(r, names, rng, "reverse");
                }
            }
        }
    }
    // ---- set_all_edge_weights
    for w in [f64::NAN, 0.0, 1.0, 2.5, -1.0, f64::INFINITY] {
        if !thorough && rng.chance(1, 2) {
            continue;
        }
        ctx::eval(1);
        match guard("set_all_edge_weights", || g.set_all_edge_weights(w)) {
            Err(c) => fail("set_all_edge_weights", &c.class(), json!({"w": format!("{}", w), "caught": c.json()})),
            Ok(r) => {
                let want: Vec<String> = m.edges.iter().map(|e| ekey(d, &e.u, &e.v, w, &e.attr)).collect();
                if !state_eq(&r, &m.nodes, want.clone()) {
                    fail("set_all_edge_weights", "changed-more-than-weights", json!({"w": format!("{}", w), "got_edges": sorted_edge_keys(d, r.get_all_edges()), "want_edges": want}));
                } else if !specs_eq(&r.specs, &g.specs) {
                    fail("set_all_edge_weights", "specs-changed", json!(null));
                } else if w == 2.5 || w.is_nan() {
                    adopt_and_mutate(r, names, rng, "set_all_edge_weights");
                }
            }
        }
    }
    // ---- to_single_edges
    ctx::eval(1);
    match guard("to_single_edges", || g.to_single_edges()) {
        Err(c) => fail("to_single_edges", &c.class(), c.json()),
        Ok(Err(e)) => {
            if m.specs.multi || !matches!(e.kind, ErrorKind::WrongMethod) {
                fail("to_single_edges", &format!("error:{}", err_name(&e.kind)), json!(null));
            } else {
                ctx::count("guard:to_single_edges-on-single");
            }
        }
        Ok(Ok(r)) => {
            if !m.specs.multi {
                fail("to_single_edges", "not-WrongMethod-on-single-edge-graph", json!(null));
            } else {
                // groups of parallel edges in model order
                let mut groups: Vec<(String, String, f64)> = vec![];
                for e in &m.edges {
                    match groups.iter_mut().find(|gp| (gp.0 == e.u && gp.1 == e.v) || (!d && gp.0 == e.v && gp.1 == e.u)) {
                        Some(gp) => gp.2 += e.w,
                        None => groups.push((e.u.clone(), e.v.clone(), e.w)),
                    }
                }
                let got_nodes: Vec<(String, Option<i32>)> = r.get_all_nodes().iter().map(|n| (n.name.clone(), n.attributes)).collect();
                let mut ok = got_nodes == m.nodes && r.get_all_edges().len() == groups.len() && !r.specs.multi_edges;
                if ok {
                    for (u, v, w) in &groups {
                        let found = r.get_all_edges().iter().any(|e| ((e.u == *u && e.v == *v) || (!d && e.u == *v && e.v == *u)) && approx(e.weight, *w));
                        if !found {
                            ok = false;
                        }
                    }
                }
                if !ok {
                    fail("to_single_edges", "not-one-edge-per-group-with-summed-weight", json!({"got_nodes": format!("{:?}", got_nodes), "got_edges": r.get_all_edges().iter().map(|e| json!([e.u, e.v, format!("{}", e.weight)])).collect::<Vec<_>>(), "want_groups": groups.iter().map(|g| json!([g.0, g.1, format!("{}", g.2)])).collect::<Vec<_>>()}));
                } else {
                    let mut want_specs = Specs::from_real(&g.specs);
                    want_specs.multi = false;
                    if Specs::from_real(&r.specs) != want_specs {
                        fail("to_single_edges", "specs-other-than-multi-changed", json!(null));
                    }
                    if groups.len() < m.edges.len() {
                        ctx::count("reach:to_single_edges-collapsed-a-group");
                    }
                    adopt_and_mutate(r, names, rng, "to_single_edges");
                }
            }
        }
    }
    // ---- the source graph is untouched
    let after = observation_vector(g, &all_names);
    if after != before {
        let diff: Vec<String> = before.iter().zip(after.iter()).filter(|(x, y)| x != y).take(4).map(|(x, y)| format!("{} => {}", x, y)).collect();
        fail("derived-graph-functions", "source-graph-changed", json!({"diff": diff}));
    }
}

pub fn run_c15(a: &Args) {
    let specs_all = Specs::all();
    let per_spec: u64 = if a.thorough { 1000 } else { 30 };
    let maxlen = if a.thorough { 24 } else { 14 };
    let mon = Monitors { prop: "C15", mutation_semantics: false, queries: false, traversal: false, counts: false, every_op: false };
    let total = specs_all.len() as u64 * per_spec;
    for idx in 0..total {
        if !ctx::mine(idx) {
            continue;
        }
        let specs = specs_all[(idx / per_spec) as usize];
        let mut rng = Rng::new(mix(a.seed ^ 0xC15, idx));
        let wmode = pick_wmode(&mut rng, true);
        let len = rng.range(2, maxlen);
        let (names, mut ops) = gen_history(&mut rng, len, wmode, true);
        if idx % 12 == 11 {
            // 70..100 filler nodes (size-triggered fast paths) and, on multigraphs, one pair with
            // 129..135 parallel edges
            let nf = rng.range(70, 100);
            let fillers: Vec<(String, Option<i32>)> = (0..nf).map(|i| (format!("n{:03}", (i * 37) % nf), Some(i as i32))).collect();
            let mut pre = vec![Op::AddNodes(fillers.clone())];
            for _ in 0..rng.range(5, 20) {
                let u = fillers[rng.below(nf)].0.clone();
                let v = if rng.coin() { names[rng.below(names.len())].clone() } else { fillers[rng.below(nf)].0.clone() };
                pre.push(Op::AddEdge(MEdge::new(&u, &v, draw_weight(wmode, &mut rng), None)));
            }
            if specs.multi {
                for _ in 0..rng.range(129, 135) {
                    let (x, y) = if rng.coin() { (&names[0], &names[names.len() - 1]) } else { (&names[names.len() - 1], &names[0]) };
                    pre.push(Op::AddEdge(MEdge::new(x, y, if wmode == WMode::AllNaN { f64::NAN } else { rng.range(1, 8) as f64 / 4.0 }, None)));
                }
            }
            let at = rng.below(ops.len() + 1);
            for (k, op) in pre.into_iter().enumerate() {
                ops.insert((at + k).min(ops.len()), op);
            }
            ctx::count("reach:source-graph-with-more-than-64-nodes");
        }
        ctx::case_desc(if ops.len() > 60 { json!({"specs": specs.label(), "history": "large case (regenerate with --only-case)"}) } else { history_desc(&specs, &ops) });
        let mut lock = run_history(specs, &names, &ops, &mon);
        if lock.cands.is_empty() {
            lock.cands = vec![model_from_graph(&lock.g)];
            lock.order_known = false;
        }
        derived_checks(&lock, &names, &mut rng, a.thorough);
        if !lock.cands[0].edges.is_empty() {
            ctx::nontrivial(mix(history_hash(&specs, &ops), fnv(b"derived")));
            if ops.len() <= 8 {
                ctx::sample_tagged(&specs.kind_label(), || history_desc(&specs, &ops));
            }
        }
    }
    // source graphs of 1100..3000 nodes: selections of 3, 1024, 1025 names and of every name
    for k in 0..(if a.thorough { 6 } else { 2 }) {
        if ctx::mine(total + k) {
            c15_big(a, k);
        }
    }
}

fn c15_big(a: &Args, k: u64) {
    let mut rng = Rng::new(mix(a.seed ^ 0xC15_B16, k));
    let specs = Specs::kind(k % 2 == 0, (k / 2) % 2 == 1, true);
    let n = rng.range(1100, 3000);
    let names: Vec<String> = (0..n).map(|i| format!("s{:04}", (i * 7919) % n)).collect();
    let mut g: G = Graph::new(specs.to_real());
    for nm in &names {
        g.add_node(graphrs::Node::from_name(nm.clone()));
    }
    let mut edges: Vec<(usize, usize, f64, Option<i32>)> = vec![];
    for i in 1..n {
        edges.push((i - 1, i, (i % 9) as f64 + 0.5, Some(i as i32)));
    }
    for j in 0..n {
        let (u, v) = (rng.below(n), rng.below(n));
        edges.push((u, v, (j % 5) as f64 + 1.0, None));
    }
    for (u, v, w, at) in &edges {
        let _ = g.add_edge(std::sync::Arc::new(graphrs::Edge { u: names[*u].clone(), v: names[*v].clone(), attributes: *at, weight: *w }));
    }
    ctx::case_desc(json!({"family": "path plus random edges", "n": n, "kind": specs.kind_label()}));
    ctx::count("reach:source-graph-with-more-than-1024-nodes");
    let kind = kind_class(&g);
    let d = specs.directed;
    let stored: Vec<(String, String, String)> = g.get_all_edges().iter().map(|e| (e.u.clone(), e.v.clone(), ekey(d, &e.u, &e.v, e.weight, &e.attributes))).collect();
    for size in [3usize, 1024, 1025, n] {
        let mut sel: Vec<String> = (0..size.min(n)).map(|i| names[(i * 13 + 5) % n].clone()).collect();
        sel.sort();
        sel.dedup();
        sel.reverse();
        let sset: BTreeSet<&String> = sel.iter().collect();
        ctx::eval(1);
        match guard("get_subgraph", || g.get_subgraph(&sel)) {
            Err(c) => ctx::violation(&format!("C15|get_subgraph|{}|{}", c.class(), kind), "get_subgraph panicked", json!({"caught": c.json(), "source_nodes": n, "requested": sel.len()})),
            Ok(sub) => {
                let got_nodes: BTreeSet<String> = sub.get_all_nodes().iter().map(|x| x.name.clone()).collect();
                let want_nodes: BTreeSet<String> = sel.iter().cloned().collect();
                let mut got_edges: Vec<String> = sub.get_all_edges().iter().map(|e| ekey(d, &e.u, &e.v, e.weight, &e.attributes)).collect();
                got_edges.sort();
                let mut want_edges: Vec<String> = stored.iter().filter(|(u, v, _)| sset.contains(u) && sset.contains(v)).map(|x| x.2.clone()).collect();
                want_edges.sort();
                if got_nodes != want_nodes || got_edges != want_edges {
                    ctx::violation(&format!("C15|get_subgraph|not-the-induced-subgraph|{}", kind), "get_subgraph of a large graph is not the induced subgraph", json!({"source_nodes": n, "requested": sel.len(), "nodes_got": got_nodes.len(), "edges_got": got_edges.len(), "edges_want": want_edges.len()}));
                }
            }
        }
    }
    ctx::nontrivial(mix(0xC15_B16, k));
}

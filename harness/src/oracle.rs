//! Definition oracles. Everything here is computed from `get_all_nodes()` and
//! `get_all_edges()` of the real graph only, with dense, brute-force algorithms that share
//! no code and no data structure with graphrs.

use graphrs::Graph;
use std::collections::HashMap;

pub const INF: f64 = f64::INFINITY;

#[derive(Clone, Debug)]
pub struct Dense {
    pub n: usize,
    pub names: Vec<String>,
    pub idx: HashMap<String, usize>,
    pub directed: bool,
    /// stored edges as (u, v, weight) in the orientation reported by get_all_edges
    pub edges: Vec<(usize, usize, f64)>,
    /// number of stored edges u->v (undirected: mult[u][v] == mult[v][u]; loops counted once)
    pub mult: Vec<Vec<usize>>,
    /// minimum stored weight of u->v (undirected: symmetric); INF when there is no edge;
    /// NaN when the pair only has unweighted edges
    pub minw: Vec<Vec<f64>>,
    /// sum of the stored weights of u->v (undirected: symmetric)
    pub sumw: Vec<Vec<f64>>,
    pub any_nan: bool,
}

impl Dense {
    pub fn from_graph<A: Clone>(g: &Graph<String, A>) -> Dense {
        let names: Vec<String> = g.get_all_nodes().iter().map(|n| n.name.clone()).collect();
        let n = names.len();
        let idx: HashMap<String, usize> =
            names.iter().enumerate().map(|(i, s)| (s.clone(), i)).collect();
        let directed = g.specs.directed;
        let mut d = Dense {
            n,
            names,
            idx,
            directed,
            edges: vec![],
            mult: vec![vec![0; n]; n],
            minw: vec![vec![INF; n]; n],
            sumw: vec![vec![0.0; n]; n],
            any_nan: false,
        };
        for e in g.get_all_edges() {
            let u = d.idx[&e.u];
            let v = d.idx[&e.v];
            d.add(u, v, e.weight);
        }
        d
    }
    pub fn from_parts(names: Vec<String>, directed: bool, edges: &[(usize, usize, f64)]) -> Dense {
        let n = names.len();
        let idx = names.iter().enumerate().map(|(i, s)| (s.clone(), i)).collect();
        let mut d = Dense {
            n,
            names,
            idx,
            directed,
            edges: vec![],
            mult: vec![vec![0; n]; n],
            minw: vec![vec![INF; n]; n],
            sumw: vec![vec![0.0; n]; n],
            any_nan: false,
        };
        for (u, v, w) in edges {
            d.add(*u, *v, *w);
        }
        d
    }
    fn add(&mut self, u: usize, v: usize, w: f64) {
        self.edges.push((u, v, w));
        if w.is_nan() {
            self.any_nan = true;
        }
        let mut put = |a: usize, b: usize| {
            self.mult[a][b] += 1;
            self.sumw[a][b] += w;
            let cur = self.minw[a][b];
            if cur == INF {
                self.minw[a][b] = w; // may be NaN
            } else if w < cur || (cur.is_nan() && !w.is_nan()) {
                self.minw[a][b] = w;
            }
        };
        put(u, v);
        if !self.directed && u != v {
            put(v, u);
        }
    }
    #[inline]
    pub fn has_arc(&self, u: usize, v: usize) -> bool {
        self.mult[u][v] > 0
    }
    /// cost of arc u->v in the chosen mode (INF if absent)
    #[inline]
    pub fn cost(&self, u: usize, v: usize, weighted: bool) -> f64 {
        if self.mult[u][v] == 0 {
            INF
        } else if weighted {
            self.minw[u][v]
        } else {
            1.0
        }
    }
    pub fn has_self_loop(&self) -> bool {
        (0..self.n).any(|i| self.mult[i][i] > 0)
    }
    pub fn num_edges(&self) -> usize {
        self.edges.len()
    }
    /// 0/1 adjacency without the diagonal
    pub fn adj01(&self) -> Vec<Vec<f64>> {
        let n = self.n;
        let mut a = vec![vec![0.0; n]; n];
        for u in 0..n {
            for v in 0..n {
                if u != v && self.mult[u][v] > 0 {
                    a[u][v] = 1.0;
                }
            }
        }
        a
    }
}

/// Single-source distances by exhaustive relaxation, accumulating left to right from the
/// source (the least fixpoint of d[t] = min_u d[u] + c(u,t)). Non-negative costs.
pub fn sssp(d: &Dense, s: usize, weighted: bool) -> Vec<f64> {
    // dense O(n^2) label-setting: settle the closest unsettled node, relax its arcs with the
    // same left-to-right sum dist[u] + c(u,v). For non-negative costs this is the least
    // fixpoint of d[t] = min_u d[u] + c(u,t).
    let n = d.n;
    let mut dist = vec![INF; n];
    let mut done = vec![false; n];
    dist[s] = 0.0;
    loop {
        let mut u = usize::MAX;
        let mut best = INF;
        for i in 0..n {
            if !done[i] && dist[i] < best {
                best = dist[i];
                u = i;
            }
        }
        if u == usize::MAX {
            break;
        }
        done[u] = true;
        for v in 0..n {
            if d.mult[u][v] == 0 {
                continue;
            }
            let c = if weighted { d.minw[u][v] } else { 1.0 };
            let nd = dist[u] + c;
            if nd < dist[v] {
                dist[v] = nd;
            }
        }
    }
    dist
}

pub fn apsp(d: &Dense, weighted: bool) -> Vec<Vec<f64>> {
    (0..d.n).map(|s| sssp(d, s, weighted)).collect()
}

/// Is arc u->v tight on a shortest path from the source with distances `dist`?
/// `tol` = 0 for exact arithmetic, otherwise a relative tolerance.
#[inline]
pub fn tight(dist: &[f64], u: usize, v: usize, c: f64, tol: f64) -> bool {
    if dist[u] == INF || c == INF {
        return false;
    }
    let a = dist[u] + c;
    let b = dist[v];
    if tol == 0.0 {
        a == b
    } else {
        (a - b).abs() <= tol * a.abs().max(b.abs())
    }
}

/// Smallest relative slack |d[u]+c - d[v]| among the non-tight arcs that are "almost" tight;
/// used to certify that a generic-weight graph has no near-ties.
pub fn min_relative_gap(d: &Dense, dist: &[f64], weighted: bool, tol: f64) -> f64 {
    let mut best = INF;
    for u in 0..d.n {
        if dist[u] == INF {
            continue;
        }
        for v in 0..d.n {
            let c = d.cost(u, v, weighted);
            if c == INF || u == v {
                continue;
            }
            let a = dist[u] + c;
            let b = dist[v];
            let scale = a.abs().max(b.abs());
            let rel = if scale == 0.0 { 0.0 } else { (a - b).abs() / scale };
            if rel > tol && rel < best {
                best = rel;
            }
        }
    }
    best
}

/// Number of shortest paths (as node sequences) from s to every node. Requires strictly
/// positive costs. Returned as f64 (exact up to 2^53).
pub fn path_counts(d: &Dense, s: usize, dist: &[f64], weighted: bool, tol: f64) -> Vec<f64> {
    let n = d.n;
    let mut order: Vec<usize> = (0..n).filter(|v| dist[*v] != INF).collect();
    order.sort_by(|a, b| dist[*a].partial_cmp(&dist[*b]).unwrap());
    let mut sigma = vec![0.0; n];
    sigma[s] = 1.0;
    for &t in &order {
        if t == s {
            continue;
        }
        let mut c = 0.0;
        for u in 0..n {
            if u != t && tight(dist, u, t, d.cost(u, t, weighted), tol) {
                c += sigma[u];
            }
        }
        sigma[t] = c;
    }
    sigma
}

/// All shortest paths s->t as node sequences (requires positive costs); None if more than `cap`.
pub fn all_shortest_paths(
    d: &Dense,
    s: usize,
    t: usize,
    dist: &[f64],
    weighted: bool,
    tol: f64,
    cap: usize,
) -> Option<Vec<Vec<usize>>> {
    if dist[t] == INF {
        return Some(vec![]);
    }
    let mut out: Vec<Vec<usize>> = vec![];
    // iterative DFS backwards from t
    let mut stack: Vec<Vec<usize>> = vec![vec![t]];
    while let Some(p) = stack.pop() {
        let head = *p.last().unwrap();
        if head == s {
            let mut q = p.clone();
            q.reverse();
            out.push(q);
            if out.len() > cap {
                return None;
            }
            continue;
        }
        for u in 0..d.n {
            if u != head && tight(dist, u, head, d.cost(u, head, weighted), tol) {
                let mut q = p.clone();
                q.push(u);
                stack.push(q);
            }
        }
    }
    out.sort();
    Some(out)
}

/// Betweenness from the definition: sum over ordered pairs (s,t), s != v != t, of
/// sigma_st(v)/sigma_st, with sigma_st(v) = sigma_sv * sigma_vt when d_sv + d_vt == d_st.
pub fn betweenness(d: &Dense, weighted: bool, normalized: bool, tol: f64) -> Vec<f64> {
    let raw = betweenness_unscaled(d, weighted, tol);
    scale_betweenness(d, &raw, normalized)
}

/// sum over ordered pairs, not yet halved / normalised
pub fn betweenness_unscaled(d: &Dense, weighted: bool, tol: f64) -> Vec<f64> {
    let n = d.n;
    let dist: Vec<Vec<f64>> = apsp(d, weighted);
    let sigma: Vec<Vec<f64>> = (0..n)
        .map(|s| path_counts(d, s, &dist[s], weighted, tol))
        .collect();
    let mut b = vec![0.0; n];
    for s in 0..n {
        for t in 0..n {
            if s == t || dist[s][t] == INF {
                continue;
            }
            let c = dist[s][t];
            let inv = 1.0 / sigma[s][t];
            for v in 0..n {
                if v == s || v == t || dist[s][v] == INF || dist[v][t] == INF {
                    continue;
                }
                let a = dist[s][v] + dist[v][t];
                let on = if tol == 0.0 {
                    a == c
                } else {
                    (a - c).abs() <= tol * a.abs().max(c.abs())
                };
                if on {
                    b[v] += sigma[s][v] * sigma[v][t] * inv;
                }
            }
        }
    }
    b
}

/// Betweenness where "shortest" is decided exactly as a label-setting search decides it: a path
/// counts iff every arc on it is tight w.r.t. the distances from its source (left-to-right float
/// sums, exact comparison). Used for weight classes whose sums are ulps apart. O(n^2 (n+m)).
pub fn betweenness_unscaled_dag(d: &Dense, weighted: bool) -> Vec<f64> {
    let n = d.n;
    let mut b = vec![0.0; n];
    for s in 0..n {
        let dist = sssp(d, s, weighted);
        let mut order: Vec<usize> = (0..n).filter(|v| dist[*v] != INF).collect();
        order.sort_by(|a, c| dist[*a].partial_cmp(&dist[*c]).unwrap());
        let preds: Vec<Vec<usize>> = (0..n)
            .map(|t| (0..n).filter(|u| *u != t && tight(&dist, *u, t, d.cost(*u, t, weighted), 0.0)).collect())
            .collect();
        let sigma = path_counts(d, s, &dist, weighted, 0.0);
        for &v in &order {
            if v == s {
                continue;
            }
            // tau[t] = number of tight paths v -> t inside s's shortest-path DAG
            let mut tau = vec![0.0; n];
            tau[v] = 1.0;
            for &t in &order {
                if t == v || t == s || dist[t] < dist[v] {
                    continue;
                }
                let c: f64 = preds[t].iter().map(|u| tau[*u]).sum();
                tau[t] = c;
                if c > 0.0 {
                    b[v] += sigma[v] * c / sigma[t];
                }
            }
        }
    }
    b
}

pub fn scale_betweenness(d: &Dense, raw: &[f64], normalized: bool) -> Vec<f64> {
    let nf = d.n as f64;
    raw.iter()
        .map(|x| {
            if normalized {
                if d.n > 2 {
                    x / ((nf - 1.0) * (nf - 2.0))
                } else {
                    *x
                }
            } else if !d.directed {
                x / 2.0
            } else {
                *x
            }
        })
        .collect()
}

/// Closeness from the definition (incoming distances).
pub fn closeness(d: &Dense, weighted: bool, wf: bool) -> Vec<f64> {
    let n = d.n;
    let dist = apsp(d, weighted);
    let mut out = vec![0.0; n];
    for u in 0..n {
        let mut r = 0usize;
        let mut tot = 0.0;
        for s in 0..n {
            if dist[s][u] != INF {
                r += 1;
                tot += dist[s][u];
            }
        }
        if r > 1 && tot > 0.0 {
            let mut c = (r as f64 - 1.0) / tot;
            if wf {
                c *= (r as f64 - 1.0) / (n as f64 - 1.0);
            }
            out[u] = c;
        }
    }
    out
}

/// Boolean transitive closure of the arc relation (reach[u][u] = true).
pub fn closure(d: &Dense, symmetric: bool) -> Vec<Vec<bool>> {
    let n = d.n;
    let mut r = vec![vec![false; n]; n];
    for u in 0..n {
        r[u][u] = true;
        for v in 0..n {
            if d.mult[u][v] > 0 {
                r[u][v] = true;
                if symmetric {
                    r[v][u] = true;
                }
            }
        }
    }
    for k in 0..n {
        for i in 0..n {
            if r[i][k] {
                for j in 0..n {
                    if r[k][j] {
                        r[i][j] = true;
                    }
                }
            }
        }
    }
    r
}

// ------------------------------------------------------------------ clustering

fn matmul(a: &[Vec<f64>], b: &[Vec<f64>]) -> Vec<Vec<f64>> {
    let n = a.len();
    let mut c = vec![vec![0.0; n]; n];
    for i in 0..n {
        for k in 0..n {
            if a[i][k] != 0.0 {
                for j in 0..n {
                    c[i][j] += a[i][k] * b[k][j];
                }
            }
        }
    }
    c
}

fn cube_diag(a: &[Vec<f64>]) -> Vec<f64> {
    let a2 = matmul(a, a);
    let a3 = matmul(&a2, a);
    (0..a.len()).map(|i| a3[i][i]).collect()
}

/// triangles through each node of an undirected graph (self-loops ignored, parallel edges once)
pub fn triangles(d: &Dense) -> Vec<usize> {
    let a = d.adj01();
    cube_diag(&a).iter().map(|x| (x / 2.0).round() as usize).collect()
}

pub fn simple_degree(d: &Dense) -> Vec<usize> {
    let a = d.adj01();
    (0..d.n).map(|i| a[i].iter().filter(|x| **x > 0.0).count()).collect()
}

/// clustering coefficients by the definitions quoted in C11
pub fn clustering(d: &Dense, weighted: bool) -> Vec<f64> {
    let n = d.n;
    let a = d.adj01();
    if !d.directed {
        let deg: Vec<f64> = (0..n).map(|i| a[i].iter().sum::<f64>()).collect();
        let num: Vec<f64> = if weighted {
            let maxw = d
                .edges
                .iter()
                .map(|e| e.2)
                .fold(f64::NEG_INFINITY, f64::max);
            let mut w = vec![vec![0.0; n]; n];
            for u in 0..n {
                for v in 0..n {
                    if u != v && d.mult[u][v] > 0 {
                        w[u][v] = (d.minw[u][v] / maxw).cbrt();
                    }
                }
            }
            cube_diag(&w)
        } else {
            cube_diag(&a)
        };
        (0..n)
            .map(|i| {
                if num[i] == 0.0 || deg[i] < 2.0 {
                    0.0
                } else {
                    num[i] / (deg[i] * (deg[i] - 1.0))
                }
            })
            .collect()
    } else {
        // Fagiolo: S = A + A^T (weighted: cube roots of normalised weights)
        let mut s = vec![vec![0.0; n]; n];
        let base: Vec<Vec<f64>> = if weighted {
            let maxw = d
                .edges
                .iter()
                .map(|e| e.2)
                .fold(f64::NEG_INFINITY, f64::max);
            let mut w = vec![vec![0.0; n]; n];
            for u in 0..n {
                for v in 0..n {
                    if u != v && d.mult[u][v] > 0 {
                        w[u][v] = (d.minw[u][v] / maxw).cbrt();
                    }
                }
            }
            w
        } else {
            a.clone()
        };
        for u in 0..n {
            for v in 0..n {
                s[u][v] = base[u][v] + base[v][u];
            }
        }
        let num = cube_diag(&s);
        (0..n)
            .map(|i| {
                let dtot: f64 = (0..n).map(|j| a[i][j] + a[j][i]).sum();
                let dbi: f64 = (0..n).map(|j| a[i][j] * a[j][i]).sum();
                let den = 2.0 * (dtot * (dtot - 1.0) - 2.0 * dbi);
                if num[i] == 0.0 || den <= 0.0 {
                    0.0
                } else {
                    num[i] / den
                }
            })
            .collect()
    }
}

pub fn transitivity(d: &Dense) -> f64 {
    let a = d.adj01();
    let tr: f64 = cube_diag(&a).iter().sum();
    let den: f64 = (0..d.n)
        .map(|i| {
            let k: f64 = a[i].iter().sum();
            k * (k - 1.0)
        })
        .sum();
    if tr == 0.0 {
        0.0
    } else {
        tr / den
    }
}

/// generalized degree: for each node the histogram {triangle count of an incident edge -> number of such edges}
pub fn generalized_degree(d: &Dense) -> Vec<HashMap<usize, usize>> {
    let a = d.adj01();
    let n = d.n;
    (0..n)
        .map(|v| {
            let mut h = HashMap::new();
            for w in 0..n {
                if a[v][w] > 0.0 {
                    let common = (0..n).filter(|x| a[v][*x] > 0.0 && a[w][*x] > 0.0).count();
                    *h.entry(common).or_insert(0) += 1;
                }
            }
            h
        })
        .collect()
}

/// square clustering (Lind et al.) on an undirected simple graph with the diagonal ignored
pub fn square_clustering(d: &Dense) -> Vec<f64> {
    let a = d.adj01();
    let n = d.n;
    let nb: Vec<Vec<usize>> = (0..n)
        .map(|i| (0..n).filter(|j| a[i][*j] > 0.0).collect())
        .collect();
    (0..n)
        .map(|v| {
            let mut clus = 0.0;
            let mut pot = 0.0;
            let nv = &nb[v];
            for i in 0..nv.len() {
                for j in (i + 1)..nv.len() {
                    let (u, w) = (nv[i], nv[j]);
                    let squares = nb[u]
                        .iter()
                        .filter(|x| **x != v && a[w][**x] > 0.0)
                        .count() as f64;
                    clus += squares;
                    let mut degm = squares + 1.0;
                    if a[u][w] > 0.0 {
                        degm += 1.0;
                    }
                    pot += (nb[u].len() as f64 - degm) + (nb[w].len() as f64 - degm) + squares;
                }
            }
            if pot > 0.0 {
                clus / pot
            } else {
                clus
            }
        })
        .collect()
}

// ------------------------------------------------------------------ modularity

/// Newman modularity of a partition given as community index per node (every node assigned).
pub fn modularity(d: &Dense, comm: &[usize], weighted: bool, resolution: f64) -> f64 {
    let n = d.n;
    let ncomm = comm.iter().copied().max().map(|m| m + 1).unwrap_or(0);
    let wt = |w: f64| if weighted { w } else { 1.0 };
    let mut m = 0.0;
    let mut outd = vec![0.0; n];
    let mut ind = vec![0.0; n];
    let mut lc = vec![0.0; ncomm];
    for (u, v, w) in &d.edges {
        let x = wt(*w);
        m += x;
        outd[*u] += x;
        ind[*v] += x;
        if comm[*u] == comm[*v] {
            lc[comm[*u]] += x;
        }
    }
    let mut q = 0.0;
    for c in 0..ncomm {
        let members: Vec<usize> = (0..n).filter(|i| comm[*i] == c).collect();
        if d.directed {
            let ko: f64 = members.iter().map(|i| outd[*i]).sum();
            let ki: f64 = members.iter().map(|i| ind[*i]).sum();
            q += lc[c] / m - resolution * ko * ki / (m * m);
        } else {
            let k: f64 = members.iter().map(|i| outd[*i] + ind[*i]).sum();
            q += lc[c] / m - resolution * (k / (2.0 * m)) * (k / (2.0 * m));
        }
    }
    q
}

//! Run context: command line, sharding, the global report, panic capture, the CPU watchdog.

use serde_json::{json, Map, Value};
use std::cell::RefCell;
use std::collections::{BTreeMap, HashSet};
use std::io::Write;
use std::panic::{catch_unwind, AssertUnwindSafe};
use std::sync::atomic::{AtomicBool, AtomicU64, Ordering};
use std::sync::Mutex;

#[derive(Clone, Debug)]
pub struct Args {
    pub prop: String,
    pub thorough: bool,
    pub seed: u64,
    pub shard: usize,
    pub nshards: usize,
    pub out: Option<String>,
    pub only_case: Option<u64>,
    pub skip_until: Option<u64>,
    pub verbose: bool,
    pub extra: Vec<String>,
    pub cpu_budget_s: f64,
}

pub struct Report {
    pub evaluations: u64,
    pub distinct: HashSet<u64>,
    pub counters: BTreeMap<String, u64>,
    pub maxima: BTreeMap<String, f64>,
    pub samples: Vec<Value>,
    pub violations: Vec<Value>,
    pub sig_counts: BTreeMap<String, u64>,
    pub notes: BTreeMap<String, Value>,
    pub cases_run: u64,
    pub last_case: u64,
}

pub static REPORT: Mutex<Option<Report>> = Mutex::new(None);
static ARGS: Mutex<Option<Args>> = Mutex::new(None);
static CALL_SEQ: AtomicU64 = AtomicU64::new(0);
/// true only while a library call made through `guard` is open: harness-side work (oracles)
/// must never be mistaken for a call that does not return
static IN_CALL: std::sync::atomic::AtomicBool = std::sync::atomic::AtomicBool::new(false);
static CUR_FN: Mutex<&'static str> = Mutex::new("");
static CUR_CASE: Mutex<Option<(u64, Value)>> = Mutex::new(None);

fn with_report<R>(f: impl FnOnce(&mut Report) -> R) -> R {
    let mut g = REPORT.lock().unwrap_or_else(|e| e.into_inner());
    f(g.as_mut().expect("report not initialised"))
}

pub fn init(args: &Args) {
    *ARGS.lock().unwrap() = Some(args.clone());
    *REPORT.lock().unwrap() = Some(Report {
        evaluations: 0,
        distinct: HashSet::new(),
        counters: BTreeMap::new(),
        maxima: BTreeMap::new(),
        samples: vec![],
        violations: vec![],
        sig_counts: BTreeMap::new(),
        notes: BTreeMap::new(),
        cases_run: 0,
        last_case: 0,
    });
    install_panic_hook();
    start_watchdog(args.cpu_budget_s);
}

pub fn args() -> Args {
    ARGS.lock().unwrap().clone().unwrap()
}

pub fn eval(n: u64) {
    with_report(|r| r.evaluations += n);
}
pub fn nontrivial(hash: u64) {
    with_report(|r| {
        if r.distinct.len() < 400_000 {
            r.distinct.insert(hash);
        }
    });
}
pub fn count(key: &str) {
    count_n(key, 1);
}
pub fn count_n(key: &str, n: u64) {
    with_report(|r| *r.counters.entry(key.to_string()).or_insert(0) += n);
}
pub fn maxf(key: &str, v: f64) {
    with_report(|r| {
        let e = r.maxima.entry(key.to_string()).or_insert(f64::MIN);
        if v > *e {
            *e = v;
        }
    });
}
pub fn note(key: &str, v: Value) {
    with_report(|r| {
        r.notes.insert(key.to_string(), v);
    });
}
/// keep up to `cap` samples in total; `want` lets callers spread samples over kinds
pub fn sample(v: impl FnOnce() -> Value) {
    let take = with_report(|r| r.samples.len() < 6);
    if take {
        let v = v();
        with_report(|r| r.samples.push(v));
    }
}
pub fn sample_tagged(tag: &str, v: impl FnOnce() -> Value) {
    // one sample per tag, at most 8 tags
    let key = format!("sample_tag:{}", tag);
    let take = with_report(|r| !r.notes.contains_key(&key) && r.samples.len() < 10);
    if take {
        let v = v();
        with_report(|r| {
            r.notes.insert(key, json!(true));
            r.samples.push(json!({"kind": tag, "case": v}));
        });
    }
}

/// Records a violation. `sig` is the stable signature (see DESIGN 2.6), `what` a one-line
/// description, `detail` the witness.
pub fn violation(sig: &str, what: &str, detail: Value) {
    if abandoned() {
        return;
    }
    let case = CUR_CASE.lock().unwrap().clone();
    let a = args();
    with_report(|r| {
        let c = r.sig_counts.entry(sig.to_string()).or_insert(0);
        *c += 1;
        if *c <= 3 && r.violations.len() < 200 {
            let (idx, cdesc) = match &case {
                Some((i, d)) => (json!(i), d.clone()),
                None => (Value::Null, Value::Null),
            };
            r.violations.push(json!({
                "signature": sig,
                "what": what,
                "detail": detail,
                "case_index": idx,
                "case": cdesc,
                "replay": {"prop": a.prop, "seed": a.seed, "tier": if a.thorough {"thorough"} else {"quick"}, "case_index": idx, "extra": a.extra},
            }));
        }
    });
    if a.verbose {
        eprintln!("VIOLATION {} :: {} :: {}", sig, what, detail);
    }
}

/// Decides whether case `idx` belongs to this process and announces it.
pub fn mine(idx: u64) -> bool {
    {
        let g = ARGS.lock().unwrap();
        let a = g.as_ref().unwrap();
        if let Some(only) = a.only_case {
            if idx != only {
                return false;
            }
        } else {
            if (idx % a.nshards as u64) as usize != a.shard {
                return false;
            }
            if let Some(s) = a.skip_until {
                if idx <= s {
                    return false;
                }
            }
        }
    }
    ABANDONED.store(false, Ordering::SeqCst);
    mem_watch(idx);
    case_begin(idx, Value::Null);
    true
}

static LAST_HWM_KB: AtomicU64 = AtomicU64::new(0);
static LAST_CASE_SEEN: AtomicU64 = AtomicU64::new(u64::MAX);

/// Peak resident memory of this process, attributed to the case that made it jump: recorded as
/// an observed maximum (evidence) and, for jumps of more than 512 MB, as a note naming the case.
fn mem_watch(next_idx: u64) {
    let prev_case = LAST_CASE_SEEN.swap(next_idx, Ordering::SeqCst);
    let hwm = std::fs::read_to_string("/proc/self/status")
        .ok()
        .and_then(|s| s.lines().find(|l| l.starts_with("VmHWM:")).and_then(|l| l.split_whitespace().nth(1).and_then(|x| x.parse::<u64>().ok())))
        .unwrap_or(0);
    let last = LAST_HWM_KB.swap(hwm, Ordering::SeqCst);
    if hwm > last {
        maxf("peak_resident_memory_mb", hwm as f64 / 1024.0);
        if hwm - last > 512 * 1024 && prev_case != u64::MAX {
            note(&format!("memory_jump_after_case_{}", prev_case), json!({"peak_mb_before": last / 1024, "peak_mb_after": hwm / 1024}));
            eprintln!("memory: peak went from {} MB to {} MB during case {}", last / 1024, hwm / 1024, prev_case);
        }
    }
}

thread_local! {
    static BUDGETS: RefCell<BTreeMap<&'static str, Option<u64>>> = RefCell::new(BTreeMap::new());
}

/// Sets a logical step budget of the library hooks and remembers it, so that a nested user
/// (the read-only bundle run while an input is being built) can put it back afterwards.
pub fn set_budget(name: &'static str, budget: Option<u64>) {
    BUDGETS.with(|b| {
        b.borrow_mut().insert(name, budget);
    });
    graphrs::verif_hooks::set_budget(name, budget);
}

pub fn current_budget(name: &'static str) -> Option<u64> {
    BUDGETS.with(|b| b.borrow().get(name).copied().flatten())
}

static ABANDONED: AtomicBool = AtomicBool::new(false);

/// The input of the current case could not be prepared (a mutation call panicked while the
/// graph was being built): nothing observed on the half-built graph is attributed to the
/// property under test. Counted, so that a run made of abandoned cases ends inconclusive
/// through its minimum-reach rule rather than as "held".
pub fn abandon_case(why: &str) {
    if !ABANDONED.swap(true, Ordering::SeqCst) {
        count(&format!("abandoned-case:{}", why));
    }
}

pub fn abandoned() -> bool {
    ABANDONED.load(Ordering::SeqCst)
}

thread_local! {
    static PROGRESS: RefCell<Option<std::fs::File>> = RefCell::new(None);
}

pub fn case_begin(idx: u64, desc: Value) {
    *CUR_CASE.lock().unwrap() = Some((idx, desc));
    CALL_SEQ.fetch_add(1, Ordering::SeqCst);
    with_report(|r| {
        r.cases_run += 1;
        r.last_case = idx;
    });
    // progress file: lets the driver attribute an abort (stack overflow, OOM kill) to a case
    let out = ARGS.lock().unwrap().as_ref().unwrap().out.clone();
    if let Some(out) = out {
        PROGRESS.with(|p| {
            let mut p = p.borrow_mut();
            if p.is_none() {
                *p = std::fs::File::create(format!("{}.progress", out)).ok();
            }
            if let Some(f) = p.as_mut() {
                use std::io::{Seek, SeekFrom};
                let _ = f.seek(SeekFrom::Start(0));
                let _ = f.write_all(format!("{:>20}\n", idx).as_bytes());
            }
        });
    }
}

/// Attach a description (replay information) to the current case.
pub fn case_desc(desc: Value) {
    let mut c = CUR_CASE.lock().unwrap();
    if let Some((i, _)) = c.take() {
        *c = Some((i, desc));
    }
}

/// Announce the library function about to be called ("call event before invoking").
#[inline]
pub fn calling(f: &'static str) {
    *CUR_FN.lock().unwrap() = f;
    CALL_SEQ.fetch_add(1, Ordering::Relaxed);
}

// ---------------------------------------------------------------- panic capture

thread_local! {
    static LAST_PANIC: RefCell<Option<(String, String)>> = RefCell::new(None);
}

fn install_panic_hook() {
    std::panic::set_hook(Box::new(|info| {
        let msg = if let Some(s) = info.payload().downcast_ref::<&str>() {
            s.to_string()
        } else if let Some(s) = info.payload().downcast_ref::<String>() {
            s.clone()
        } else {
            "<non-string panic payload>".to_string()
        };
        let loc = info
            .location()
            .map(|l| format!("{}:{}", l.file(), l.line()))
            .unwrap_or_default();
        if !IN_CALL.load(Ordering::SeqCst) && info.payload().downcast_ref::<graphrs::verif_hooks::BudgetExceeded>().is_none() {
            // a panic outside any guarded library call is a fault of the harness itself (or of
            // an unguarded preparation step): leave a trace for the driver's "inconclusive" report
            eprintln!("unguarded panic: {} at {}", msg, loc);
        }
        LAST_PANIC.with(|p| *p.borrow_mut() = Some((msg, loc)));
    }));
}

#[derive(Debug, Clone)]
pub enum Caught {
    Panic { msg: String, loc: String },
    Budget { name: String, count: u64, budget: u64 },
}

impl Caught {
    /// failure class used in signatures: panic message with digits squeezed + source file
    pub fn class(&self) -> String {
        match self {
            Caught::Panic { msg, loc } => {
                let file = loc.split(':').next().unwrap_or("");
                let file = file.rsplit("/src/").next().unwrap_or(file);
                let m: String = msg.chars().take(60).collect();
                let m: String = m
                    .chars()
                    .map(|c| if c.is_ascii_digit() { '#' } else { c })
                    .collect();
                format!("panic:{}@{}", m, file)
            }
            Caught::Budget { name, .. } => format!("step-budget:{}", name),
        }
    }
    pub fn json(&self) -> Value {
        match self {
            Caught::Panic { msg, loc } => json!({"panic": msg, "at": loc}),
            Caught::Budget { name, count, budget } => {
                json!({"step_budget_exceeded": name, "steps": count, "budget": budget})
            }
        }
    }
}

/// Runs `f`, converting a panic (or a tick-budget overrun) into `Err`.
pub fn guard<R>(fname: &'static str, f: impl FnOnce() -> R) -> Result<R, Caught> {
    calling(fname);
    LAST_PANIC.with(|p| *p.borrow_mut() = None);
    IN_CALL.store(true, Ordering::SeqCst);
    let result = catch_unwind(AssertUnwindSafe(f));
    IN_CALL.store(false, Ordering::SeqCst);
    CALL_SEQ.fetch_add(1, Ordering::SeqCst);
    match result {
        Ok(r) => Ok(r),
        Err(payload) => {
            if let Some(b) = payload.downcast_ref::<graphrs::verif_hooks::BudgetExceeded>() {
                return Err(Caught::Budget {
                    name: b.name.to_string(),
                    count: b.count,
                    budget: b.budget,
                });
            }
            let (msg, loc) = LAST_PANIC
                .with(|p| p.borrow_mut().take())
                .unwrap_or_else(|| {
                    let m = if let Some(s) = payload.downcast_ref::<&str>() {
                        s.to_string()
                    } else if let Some(s) = payload.downcast_ref::<String>() {
                        s.clone()
                    } else {
                        "<unknown panic>".into()
                    };
                    (m, String::new())
                });
            Err(Caught::Panic { msg, loc })
        }
    }
}

// ---------------------------------------------------------------- CPU watchdog

fn process_cpu_seconds() -> f64 {
    // utime + stime from /proc/self/stat, in clock ticks (100 Hz on Linux)
    if let Ok(s) = std::fs::read_to_string("/proc/self/stat") {
        if let Some(pos) = s.rfind(')') {
            let fields: Vec<&str> = s[pos + 1..].split_whitespace().collect();
            if fields.len() > 13 {
                let ut: f64 = fields[11].parse().unwrap_or(0.0);
                let st: f64 = fields[12].parse().unwrap_or(0.0);
                return (ut + st) / 100.0;
            }
        }
    }
    0.0
}

fn start_watchdog(budget_s: f64) {
    std::thread::spawn(move || {
        let mut last_seq = CALL_SEQ.load(Ordering::SeqCst);
        let mut cpu_at_change = process_cpu_seconds();
        loop {
            std::thread::sleep(std::time::Duration::from_millis(250));
            let seq = CALL_SEQ.load(Ordering::SeqCst);
            let cpu = process_cpu_seconds();
            if seq != last_seq || !IN_CALL.load(Ordering::SeqCst) {
                last_seq = seq;
                cpu_at_change = cpu;
                continue;
            }
            maxf("max_cpu_seconds_seen_inside_one_guarded_call", cpu - cpu_at_change);
            if cpu - cpu_at_change > budget_s {
                // the open call has burnt more CPU than any correct call can: bounded-progress violation
                let f = *CUR_FN.lock().unwrap_or_else(|e| e.into_inner());
                let a = args();
                let sig = format!("{}|{}|no-return|cpu-budget", a.prop, f);
                violation(
                    &sig,
                    &format!("call to {} did not return within {} CPU-seconds", f, budget_s),
                    json!({"cpu_seconds_in_call": cpu - cpu_at_change, "function": f}),
                );
                finish(true);
                std::process::exit(77);
            }
        }
    });
}

// ---------------------------------------------------------------- output

pub fn finish(incomplete: bool) {
    let a = args();
    let out = with_report(|r| {
        let mut distinct: Vec<String> = r.distinct.iter().map(|h| format!("{:016x}", h)).collect();
        distinct.sort();
        let mut m = Map::new();
        m.insert("prop".into(), json!(a.prop));
        m.insert("shard".into(), json!(a.shard));
        m.insert("nshards".into(), json!(a.nshards));
        m.insert("seed".into(), json!(a.seed));
        m.insert("tier".into(), json!(if a.thorough { "thorough" } else { "quick" }));
        m.insert("incomplete".into(), json!(incomplete));
        m.insert("last_case".into(), json!(r.last_case));
        m.insert("cases_run".into(), json!(r.cases_run));
        m.insert("evaluations".into(), json!(r.evaluations));
        m.insert("distinct".into(), json!(distinct));
        m.insert("counters".into(), json!(r.counters));
        m.insert("maxima".into(), json!(r.maxima));
        m.insert("samples".into(), json!(r.samples));
        m.insert("violations".into(), json!(r.violations));
        m.insert("sig_counts".into(), json!(r.sig_counts));
        let notes: BTreeMap<String, Value> = r
            .notes
            .iter()
            .filter(|(k, _)| !k.starts_with("sample_tag:"))
            .map(|(k, v)| (k.clone(), v.clone()))
            .collect();
        m.insert("notes".into(), json!(notes));
        Value::Object(m)
    });
    let text = serde_json::to_string(&out).unwrap();
    match &a.out {
        Some(p) => {
            let tmp = format!("{}.tmp", p);
            std::fs::write(&tmp, text).expect("write report");
            std::fs::rename(&tmp, p).expect("rename report");
        }
        None => println!("{}", text),
    }
}
